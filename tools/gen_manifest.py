#!/usr/bin/env python3
"""Regenerate MANIFEST.json from props/manifest_texts.py (claimed checks) and properties.jsonl."""
import json, os, sys
V = os.path.dirname(os.path.dirname(os.path.abspath(__file__)))
sys.path.insert(0, V)
from props.manifest_texts import CHECKS, NOT_APPLICABLE, HOOK_COMMITS
props = [json.loads(l) for l in open(os.path.join(V, 'properties.jsonl'))]
ids = [p['id'] for p in props]
checks = []
for pid in ids:
    if pid not in CHECKS:
        continue
    c = CHECKS[pid]
    checks.append({
        'property_id': pid,
        'quick_cmd': './check %s --tier quick' % pid,
        'thorough_cmd': './check %s --tier thorough' % pid,
        'evidence_file': 'evidence/%s.json' % pid,
        'replay_cmd_template': './check replay {path}',
        'engine': 'pyvc',
        'level_claimed': {'category': c.get('category', 'proof'), 'text': c['text'], 'design_ref': c['design_ref']},
        'level_note': c['note'],
        'technique': c.get('technique', 'sidecar contracts + VC generation from the real AST (pyvc) + z3/cvc5'),
    })
na = [{'property_id': pid, 'reason': NOT_APPLICABLE.get(pid, 'check not built yet (work in progress; see DESIGN.md section 8)')}
      for pid in ids if pid not in CHECKS]
m = {
    'version': 1,
    'setup_cmd': './setup.sh',
    'hooks': {'guard': 'PAMQP_VERIF',
              'enable': 'none needed: contracts are sidecar files under /verif/contracts; checks read /repo/pamqp/*.py directly (PAMQP_VERIF=1 is exported by ./check but no source in /repo tests it)',
              'baseline_off_cmd': 'cd /repo && /venv/bin/python -m pytest -ra -q -p no:cacheprovider --timeout=900 --continue-on-collection-errors',
              'source_commits': HOOK_COMMITS, 'add_only': True},
    'engines': [{'name': 'pyvc', 'path': 'pyvc/', 'serves_properties': [c['property_id'] for c in checks],
                 'kind_free_text': 'home-built deductive verifier: symbolic execution of the real function ASTs from /repo against sidecar contracts (pre/post, exceptional posts, frames, loop invariants), one obligation per path and clause, discharged by z3 5.1 (API) and cross-checked by z3 4.8.12 / cvc5 1.0.3 CLIs; counter-models replayed on the real code under /venv/bin/python'}],
    'checks': checks,
    'not_applicable': na,
    'notes': 'Genuine defects repaired by fix: commits in /repo are listed in known_findings.json (fixed entries suppress nothing). See DESIGN.md.',
}
json.dump(m, open(os.path.join(V, 'MANIFEST.json'), 'w'), indent=1)
print('checks:', [c['property_id'] for c in checks], 'not_applicable:', len(na))
