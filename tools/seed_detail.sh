#!/bin/bash
# tools/seed_detail.sh <seed> <prop>: run the check on a seeded change and print the undecided obligations / bounded rows
seed=$1; prop=$2
cd /repo && git diff --quiet || { echo dirty; exit 9; }
pf=/verif/seeded/$seed/patch.diff; [ -f /verif/seeded/$seed/patch.fixed.diff ] && pf=/verif/seeded/$seed/patch.fixed.diff
git apply $pf || exit 8
cd /verif; cp evidence/$prop.json /tmp/$prop.bak
./check $prop --tier quick "${@:3}" 2>&1 | grep -E "^VIOLATION|quick:|ERROR" | head -8
python3 - <<PY
import json,collections
d=json.load(open('/verif/evidence/$prop.json'))
c=collections.Counter((u['obligation'].split('@')[0], u['why'][:170]) for u in d['coverage']['undecided'])
for k,v in c.most_common(10): print(v,k)
for b in d['coverage']['bounded_checks']: print('bounded:', json.dumps(b)[:300])
PY
cp /tmp/$prop.bak evidence/$prop.json; git -C /repo checkout -- .; git -C /repo clean -fdq
