#!/usr/bin/env python3
"""Engine self-test with the starter catalogue of DESIGN Appendix F: one-line changes of /repo (each still
passes the 846 tests), each applied to /repo, checked with the property it must fail, and undone.
Usage: tools/appendix_f.py [ids...]   -> one line per change; exit 1 if a change survives its check."""
import os
import subprocess
import sys

REPO = '/repo'
M = [  # (id, file, old, new, property, note)
    (1, 'pamqp/encode.py', "    elif -32768 <= value <= 32767:\n        return b's' + short_int(value)\n    elif 0 <= value <= 65535:",
        "    elif -32768 <= value < 32767:\n        return b's' + short_int(value)\n    elif 0 <= value <= 65535:", 'C11', 'boundary slip'),
    (3, 'pamqp/encode.py', "        return b's' + short_int(value)\n    elif -2147483648 <= value <= 2147483647:\n        return b'I' + long_int(value)\n    elif -9223372036854775808",
        "        return b's' + short_int(value)\n    elif 0 <= value <= 65535:\n        return b'u' + short_uint(value)\n    elif -2147483648 <= value <= 2147483647:\n        return b'I' + long_int(value)\n    elif -9223372036854775808", 'C11', 'u rung in legacy ladder'),
    (4, 'pamqp/encode.py', 'def support_deprecated_rabbitmq(enabled: bool = True)', 'def support_deprecated_rabbitmq(enabled: bool = False)', 'C11', 'default'),
    (5, 'pamqp/common.py', "    ushort = struct.Struct('>H')", "    ushort = struct.Struct('>h')", 'C04', 'ushort signed'),
    (6, 'pamqp/common.py', "    long_long_int = struct.Struct('>q')", "    long_long_int = struct.Struct('>Q')", 'C03', 'longlong unsigned'),
    (7, 'pamqp/common.py', "    timestamp = struct.Struct('>Q')", "    timestamp = struct.Struct('>q')", 'C05', 'timestamp signed'),
    (8, 'pamqp/encode.py', "    elif not (0 <= value <= 4294967295):\n        raise TypeError('Long unsigned", "    elif not (0 <= value <= 2147483647):\n        raise TypeError('Long unsigned", 'C04', 'long_uint domain'),
    (9, 'pamqp/encode.py', '    return byte | (value << position)', '    return byte | (value << (7 - position))', 'C04', 'bit order'),
    (10, 'pamqp/decode.py', '        return 0, (bit_buffer & (1 << position)) != 0', '        return 0, (bit_buffer & (1 << (position + 1))) != 0', 'C05', 'bit position'),
    (11, 'pamqp/base.py', "        if processing_bitset:\n            output.append(encode.octet(byte))\n        return b''.join(output)", "        return b''.join(output)", 'C04', 'lost flush'),
    (12, 'pamqp/base.py', "        self.validate()\n        byte, offset, output, processing_bitset = -1, 0, [], False", "        byte, offset, output, processing_bitset = -1, 0, [], False", 'C13', 'no re-validation'),
    (13, 'pamqp/base.py', "                offset = 0\n                processing_bitset = False\n                data = data[1:]", "                offset = 0\n                processing_bitset = False", 'C05', 'bit octet not skipped'),
    (15, 'pamqp/base.py', 'partial_flags = flags & 0xFFFE', 'partial_flags = flags & 0x7FFE', 'C02', 'flag mask'),
    (16, 'pamqp/base.py', "if property_value is not None and property_value != '':", 'if property_value:', 'C02', 'truthiness'),
    (17, 'pamqp/base.py', "        for property_name in self.__slots__:\n            if flags & self.flags[property_name]:", "        for property_name in reversed(self.__slots__):\n            if flags & self.flags[property_name]:", 'C05', 'reversed properties'),
    (20, 'pamqp/commands.py', "        def __init__(self,\n                     delivery_tag: typing.Optional[int] = None,\n                     requeue: bool = True) -> None:\n            \"\"\"Initialize the :class:`Basic.Reject` class\"\"\"",
         "        def __init__(self,\n                     delivery_tag: typing.Optional[int] = None,\n                     requeue: bool = False) -> None:\n            \"\"\"Initialize the :class:`Basic.Reject` class\"\"\"", 'C14', 'default'),
    (23, 'pamqp/commands.py', "        name = 'Tx.Commit'\n        synchronous = True", "        name = 'Tx.Commit'\n        synchronous = False", 'C14', 'sync flag'),
    (25, 'pamqp/commands.py', "            if self.exchange is not None and len(self.exchange) > 127:\n                raise ValueError('Max length exceeded for exchange')\n            if self.exchange is not None and not constants.DOMAIN_REGEX[\n                    'exchange-name'].fullmatch(self.exchange):\n                raise ValueError('Invalid value for exchange')\n\n    class DeclareOk",
         "            if self.exchange is not None and len(self.exchange) > 126:\n                raise ValueError('Max length exceeded for exchange')\n            if self.exchange is not None and not constants.DOMAIN_REGEX[\n                    'exchange-name'].fullmatch(self.exchange):\n                raise ValueError('Invalid value for exchange')\n\n    class DeclareOk", 'C13', 'length bound'),
    (28, 'pamqp/commands.py', "            if self.insist is not None and self.insist is not False:\n                raise ValueError('insist must be False')\n", "", 'C13', 'insist check removed'),
    (31, 'pamqp/header.py', "        return struct.pack('>HxxQ', commands.Basic.frame_id,\n                           self.body_size) + self.properties.marshal()", "        return struct.pack('>HHQ', commands.Basic.frame_id, 1,\n                           self.body_size) + self.properties.marshal()", 'C04', 'weight 1'),
    (32, 'pamqp/header.py', "struct.unpack('BBB', data[5:8])", "struct.unpack('BBB', data[4:7])", 'C18', 'version offset'),
    (33, 'pamqp/heartbeat.py', "struct.pack('>BHI', constants.FRAME_HEARTBEAT, 0, 0)", "struct.pack('>BHI', constants.FRAME_HEARTBEAT, 1, 0)", 'C18', 'heartbeat channel'),
    (34, 'pamqp/frame.py', "        struct.pack('>BHI', frame_type, channel_id, len(payload)), payload,", "        struct.pack('>BHI', frame_type, channel_id, len(payload) + 1), payload,", 'C20', 'size off by one'),
    (35, 'pamqp/frame.py', '    byte_count = constants.FRAME_HEADER_SIZE + frame_size + 1', '    byte_count = constants.FRAME_HEADER_SIZE + frame_size', 'C06', 'byte count'),
    (36, 'pamqp/frame.py', "    if data_in[byte_count - 1] != constants.FRAME_END:\n        raise exceptions.UnmarshalingException('Unknown', 'Last byte error')\n", "", 'C06', 'no end check'),
    (37, 'pamqp/frame.py', "    if byte_count > len(data_in):\n        raise exceptions.UnmarshalingException('Unknown',\n                                               'Not all data received')\n", "", 'C07', 'no length check'),
    (38, 'pamqp/frame.py', "struct.unpack('>BHI', data[0:constants.FRAME_HEADER_SIZE])", "struct.unpack('>BHi', data[0:constants.FRAME_HEADER_SIZE])", 'C20', 'signed size'),
    (39, 'pamqp/frame.py', "    except struct.error:  # Did not receive a full frame\n        return UNMARSHAL_FAILURE", "    except struct.error:  # Did not receive a full frame\n        raise", 'C20', 're-raise'),
    (40, 'pamqp/frame.py', '    content_body.unmarshal(frame_data)', '    content_body.unmarshal(frame_data[:-1])', 'C18', 'body truncated'),
    (41, 'pamqp/body.py', 'return len(self.value) if self.value else 0', 'return len(self.value) - 1 if self.value else 0', 'C18', 'len'),
    (42, 'pamqp/encode.py', 'for key, value in sorted(value.items()):', 'for key, value in value.items():', 'C12', 'unsorted'),
    (44, 'pamqp/encode.py', "    data = []\n    for item in value:\n        data.append(encode_table_value(item))", "    data = []\n    value.reverse()\n    for item in value:\n        data.append(encode_table_value(item))", 'C12', 'reverse in place'),
    (45, 'pamqp/encode.py', "    if isinstance(value, bool):\n        return b't' + boolean(value)\n    elif isinstance(value, int):\n        return table_integer(value)",
         "    if isinstance(value, int) and not isinstance(value, bool):\n        return table_integer(value)\n    elif isinstance(value, int):\n        return table_integer(value)", 'C03', 'bool as int'),
    (46, 'pamqp/encode.py', "        if value.tzinfo is None or value.tzinfo.utcoffset(value) is None:\n            # assume datetime object is UTC\n            value = value.replace(tzinfo=datetime.timezone.utc)\n        return common.Struct.timestamp.pack(int(value.timestamp()))",
         "        return common.Struct.timestamp.pack(int(value.timestamp()))", 'C15', 'naive via local time'),
    (47, 'pamqp/decode.py', "        return 8, datetime.datetime.fromtimestamp(ts_value,\n                                                  tz=datetime.timezone.utc)", "        return 8, datetime.datetime.fromtimestamp(ts_value).replace(\n            tzinfo=datetime.timezone.utc)", 'C15', 'local then relabel'),
    (48, 'pamqp/decode.py', "    b'u': short_uint,", "    b'u': short_int,", 'C05', 'u signed'),
    (49, 'pamqp/decode.py', "    b'\\x00': void,  # While not documented, have seen this in the wild\n", "", 'C05', '0x00 tag removed'),
    (51, 'pamqp/decode.py', "        return length + 1, value[1:length + 1].decode('utf-8')", "        return length, value[1:length + 1].decode('utf-8')", 'C05', 'consumed off by one'),
    (53, 'pamqp/decode.py', '        while offset < field_array_end:', '        while offset <= field_array_end:', 'C05', 'loop bound'),
    (54, 'pamqp/decode.py', '        return length + 4, bytearray(value[4:length + 4])', '        return length + 4, bytes(value[4:length + 4])', 'C03', 'bytes not bytearray'),
    (56, 'pamqp/frame.py', "    except (struct.error, ValueError, OverflowError) as error:\n        raise exceptions.UnmarshalingException(method, error)", "    except struct.error as error:\n        raise exceptions.UnmarshalingException(method, error)", 'C09', 'handler narrowed'),
    (57, 'pamqp/decode.py', "            if not consumed:\n                raise ValueError('Field array is longer than the data')\n", "", 'C08', 'progress guard removed'),
    (58, 'pamqp/exceptions.py', 'class AMQPNotFound(AMQPSoftError):', 'class AMQPNotFound(AMQPHardError):', 'C17', 'base class'),
    (60, 'pamqp/constants.py', 'FRAME_MIN_SIZE = 4096', 'FRAME_MIN_SIZE = 4095', 'C17', 'constant'),
    (61, 'pamqp/base.py', "        for attribute in self.__slots__:\n            yield attribute, getattr(self, attribute)", "        for attribute in sorted(self.__slots__):\n            yield attribute, getattr(self, attribute)", 'C19', 'sorted iteration'),
    (62, 'pamqp/base.py', '        return len(self.__slots__)', '        return len(self.__slots__) + 1', 'C19', 'len'),
]


def run(cmd, **kw):
    return subprocess.run(cmd, shell=True, capture_output=True, text=True, **kw)


def main():
    want = set(map(int, sys.argv[1:]))
    survivors = 0
    if run('git -C %s diff --quiet' % REPO).returncode:
        print('repo dirty')
        return 9
    for (mid, path, old, new, prop, note) in M:
        if want and mid not in want:
            continue
        full = os.path.join(REPO, path)
        src = open(full).read()
        if src.count(old) != 1:
            print('F%02d %-4s SKIP (pattern matches %d times)' % (mid, prop, src.count(old)))
            continue
        open(full, 'w').write(src.replace(old, new))
        try:
            tests = run('cd %s && /venv/bin/python -m pytest -q -p no:cacheprovider -x 2>&1 | tail -1' % REPO).stdout.strip()
            ev = '/verif/evidence/%s.json' % prop
            bak = open(ev).read() if os.path.exists(ev) else None
            r = run('cd /verif && ./check %s --tier quick' % prop)
            if bak is not None:
                open(ev, 'w').write(bak)
            line = [l for l in r.stdout.splitlines() if l.startswith(prop + ' quick')]
            verdict = 'CAUGHT' if r.returncode == 1 else ('ENGINE-ERROR' if r.returncode == 3 else 'SURVIVED')
            if r.returncode != 1:
                survivors += 1
            print('F%02d %-4s %-9s tests[%s] %s  (%s)' % (mid, prop, verdict, tests[:40], line[-1] if line else '', note), flush=True)
        finally:
            run('git -C %s reset -q --hard HEAD' % REPO)
    return 1 if survivors else 0


if __name__ == '__main__':
    sys.exit(main())
