#!/bin/bash
# run seeded changes against the check of the property each was written for; one line per seed
# usage: tools/sweep_seeds.sh [seed-id ...]   (default: every directory under seeded/)
cd /verif
ids="$@"; [ -z "$ids" ] && ids=$(ls seeded)
for id in $ids; do
  prop=${id%-*}
  out=$(tools/try_seed.sh $id $prop quick 2>&1)
  rc=$(echo "$out" | grep -o "exit=[0-9]*" | tail -1)
  line=$(echo "$out" | grep -E "^C[0-9]+ quick" | tail -1)
  echo "$id $rc nviol=$(echo "$out" | grep -c '^VIOLATION') | $line | $(echo "$out" | grep -E 'APPLY-FAIL|CHECKER-ERROR' | head -1)"
done
