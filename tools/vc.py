#!/usr/bin/env python3
"""tools/vc.py <substring> : verify matching contracts in-process and print non-proved obligations."""
import sys, time, os
V = os.path.dirname(os.path.dirname(os.path.abspath(__file__)))
sys.path.insert(0, V); sys.path.insert(0, os.environ.get('PAMQP_REPO', '/repo'))
from props import catalog
from pyvc.contract import Verifier
reg = catalog.build_registry()
v = Verifier(reg)
pat = sys.argv[1] if len(sys.argv) > 1 else ''
show = int(sys.argv[2]) if len(sys.argv) > 2 else 8
for c in reg.all:
    if pat not in c.name or c.trusted:
        continue
    t0 = time.time()
    res, stats = v.verify(c)
    bad = [r for r in res if r.verdict != 'proved']
    print('%-55s obl %4d paths %4d q %5d notproved %3d  %.2fs' % (c.name, len(res), stats['paths'], stats['queries'], len(bad), time.time() - t0))
    for r in bad[:show]:
        print('    ', r.verdict, r.name, '--', r.detail, (str(r.model)[:120] if r.model else ''))
