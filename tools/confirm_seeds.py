#!/usr/bin/env python3
"""tools/confirm_seeds.py <outdir> <scratch-worktree> -- confirm sub-agent changes independently (patch applies on /repo HEAD,
the pinned suite passes with it, the demo fails with it and passes without) and file them under /verif/seeded/<prop>-<X>/."""
import json, os, shutil, subprocess, sys

out, wt = sys.argv[1], sys.argv[2]
env = dict(os.environ, PYTHONPATH=wt, PYTHONDONTWRITEBYTECODE='1')


def sh(cmd, **kw):
    return subprocess.run(cmd, shell=True, capture_output=True, text=True, env=env, **kw)


head = sh('git -C /repo rev-parse --short HEAD').stdout.strip()
for prop in sorted(os.listdir(out)):
    for x in sorted(os.listdir(os.path.join(out, prop))):
        d = os.path.join(out, prop, x)
        if not os.path.exists(d + '/patch.diff'):
            continue
        sid = '%s-%s' % (prop, x)
        sh('git -C %s checkout -q -- . && git -C %s clean -fdq' % (wt, wt))
        a = sh('git -C %s apply %s/patch.diff' % (wt, d))
        if a.returncode:
            print(sid, 'APPLY-FAIL', a.stderr[:100]); continue
        t = sh('cd %s && /venv/bin/python -m pytest -q -p no:cacheprovider 2>&1 | tail -1' % wt)
        w = sh('cd %s && /venv/bin/python %s/demo.py' % (wt, d), timeout=600)
        sh('git -C %s checkout -q -- . && git -C %s clean -fdq' % (wt, wt))
        wo = sh('cd %s && /venv/bin/python %s/demo.py' % (wt, d), timeout=600)
        ok = ' passed' in t.stdout and 'failed' not in t.stdout and w.returncode == 1 and wo.returncode == 0
        print(sid, 'OK' if ok else 'REJECT', t.stdout.strip(), 'demo with/without:', w.returncode, wo.returncode)
        if not ok:
            continue
        dst = '/verif/seeded/' + sid
        os.makedirs(dst, exist_ok=True)
        for f in ('patch.diff', 'demo.py'):
            shutil.copy(os.path.join(d, f), dst)
        meta = json.load(open(d + '/meta.json'))
        meta.update({'breaks_property': prop, 'origin': 'independent sub-agent (round 2) given only the property text, the summaries of the '
                     'round-1 changes and a scratch worktree of the repaired tree',
                     'confirmed': {'how': 'applied patch.diff in a scratch worktree of /repo HEAD (%s); ran the full pinned test suite and demo.py '
                                          'with and without the patch' % head,
                                   'test_suite_with_patch': t.stdout.strip(), 'demo_without_patch_exit': wo.returncode,
                                   'demo_with_patch_exit': w.returncode}})
        json.dump(meta, open(dst + '/meta.json', 'w'), indent=1)
