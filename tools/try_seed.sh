#!/bin/bash
# tools/try_seed.sh <seed-id> <property> [tier] -- apply a seeded change to /repo, run the check, undo.
seed=$1; prop=$2; tier=${3:-quick}
cd /repo || exit 9
if ! git diff --quiet; then echo "repo dirty"; exit 9; fi
pf=/verif/seeded/$seed/patch.diff
[ -f /verif/seeded/$seed/patch.fixed.diff ] && pf=/verif/seeded/$seed/patch.fixed.diff   # ported onto the repaired tree
if ! git apply $pf 2>/tmp/apply.err; then echo "APPLY-FAIL $seed: $(head -1 /tmp/apply.err)"; git reset -q --hard HEAD; git clean -fdq; exit 8; fi
# evidence written while a seeded change is applied must never replace the evidence of the unchanged tree
ev=/verif/evidence/$prop.json; bak=$(mktemp); [ -f $ev ] && cp $ev $bak
cd /verif && ./check $prop --tier $tier "${@:4}"; rc=$?
[ -s $bak ] && cp $bak $ev; rm -f $bak
cd /repo && git reset -q --hard HEAD && git clean -fdq
echo "seed=$seed prop=$prop exit=$rc"
exit $rc
