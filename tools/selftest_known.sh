#!/bin/bash
# Self-test of the KNOWN-FINDING path (never part of a registered command): with a seeded change applied, every violation
# reported is copied into a TEMPORARY findings file (PAMQP_KNOWN_FINDINGS); the same check must then print one
# KNOWN-FINDING line per entry and exit 0; with one entry removed it must exit 1 again for exactly that violation.
seed=${1:-C11-C}; prop=${seed%-*}
cd /repo && git diff --quiet || { echo "repo dirty"; exit 9; }
git apply /verif/seeded/$seed/patch.diff || exit 8
cd /verif; cp evidence/$prop.json /tmp/$prop.bak
./check $prop --tier quick > /tmp/kf_run1.log 2>&1; rc1=$?
python3 - "$prop" <<'PY'
import json, glob, sys
prop = sys.argv[1]
fs = []
for f in sorted(glob.glob('/verif/replays/%s/*.json' % prop)):
    d = json.load(open(f))
    fs.append({'property': prop, 'contract': d.get('unit'), 'input_signature': d.get('input_signature'), 'what': d.get('obligation')})
json.dump({'findings': fs, 'fixed': []}, open('/tmp/kf_all.json', 'w'))
json.dump({'findings': fs[1:], 'fixed': []}, open('/tmp/kf_but_one.json', 'w'))
print('violations recorded:', len(fs))
PY
PAMQP_KNOWN_FINDINGS=/tmp/kf_all.json ./check $prop --tier quick > /tmp/kf_run2.log 2>&1; rc2=$?
PAMQP_KNOWN_FINDINGS=/tmp/kf_but_one.json ./check $prop --tier quick > /tmp/kf_run3.log 2>&1; rc3=$?
cp /tmp/$prop.bak evidence/$prop.json
cd /repo && git reset -q --hard HEAD && git clean -fdq
echo "run1 (no findings file): exit=$rc1 violations=$(grep -c '^VIOLATION' /tmp/kf_run1.log)"
echo "run2 (all listed): exit=$rc2 violations=$(grep -c '^VIOLATION' /tmp/kf_run2.log) known=$(grep -c '^KNOWN-FINDING' /tmp/kf_run2.log)"
echo "run3 (one not listed): exit=$rc3 violations=$(grep -c '^VIOLATION' /tmp/kf_run3.log) known=$(grep -c '^KNOWN-FINDING' /tmp/kf_run3.log)"
[ $rc1 = 1 ] && [ $rc2 = 0 ] && [ $rc3 = 1 ] && echo SELFTEST-OK || echo SELFTEST-FAILED
