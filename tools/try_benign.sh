#!/bin/bash
# tools/try_benign.sh <benign-id> <prop> [<prop> ...] -- apply a behaviour-preserving refactoring, run the checks (all must exit 0), undo.
id=$1; shift
cd /repo || exit 9
if ! git diff --quiet; then echo "repo dirty"; exit 9; fi
git apply /verif/benign/$id/patch.diff || { echo "APPLY-FAIL $id"; exit 8; }
cd /verif
for prop in "$@"; do
  ev=evidence/$prop.json; bak=$(mktemp); cp $ev $bak
  out=$(./check $prop --tier quick 2>&1); rc=$?
  cp $bak $ev; rm -f $bak
  echo "benign=$id prop=$prop exit=$rc | $(echo "$out" | grep -E "^C[0-9]+ quick" | tail -1) | $(echo "$out" | grep -E '^VIOLATION|CHECKER-ERROR' | head -2 | tr '\n' ' ')"
done
cd /repo && git reset -q --hard HEAD && git clean -fdq
