#!/bin/bash
# run every claimed check once on the current tree (quick tier by default); prints one line per property
cd /verif
tier=${1:-quick}
for p in $(python3-vt -c "import json;print(' '.join(c['property_id'] for c in json.load(open('MANIFEST.json'))['checks']))"); do
  /usr/bin/time -f "%es" ./check $p --tier $tier > /tmp/run_$p.log 2>&1; rc=$?
  echo "$p rc=$rc $(grep -E "^C[0-9]+ (quick|thorough)" /tmp/run_$p.log | tail -1) [$(tail -1 /tmp/run_$p.log)]"
done
