"""Native probes used by replay files of ground obligations (runs under /venv/bin/python)."""
import importlib


def attr(path):
    """repr of a dotted attribute path, e.g. pamqp.commands.Basic.Get.valid_responses"""
    parts = path.split('.')
    for i in range(len(parts), 0, -1):
        try:
            obj = importlib.import_module('.'.join(parts[:i]))
        except ImportError:
            continue
        for p in parts[i:]:
            if isinstance(obj, dict):
                try:
                    obj = obj[int(p)] if p.lstrip('-').isdigit() else obj[p]
                except KeyError:
                    return '<missing %s>' % p
            else:
                obj = getattr(obj, p, '<missing %s>' % p)
        if isinstance(obj, type):
            return '<class %s.%s bases=%s>' % (obj.__module__, obj.__qualname__,
                                               [b.__qualname__ for b in obj.__mro__[1:-1]])
        return repr(obj)
    return '<unresolvable>'
