"""Native probes used by replay files of ground obligations (runs under /venv/bin/python)."""
import importlib


def attr(path):
    """repr of a dotted attribute path, e.g. pamqp.commands.Basic.Get.valid_responses"""
    parts = path.split('.')
    for i in range(len(parts), 0, -1):
        try:
            obj = importlib.import_module('.'.join(parts[:i]))
        except ImportError:
            continue
        for p in parts[i:]:
            if isinstance(obj, dict):
                try:
                    obj = obj[int(p)] if p.lstrip('-').isdigit() else obj[p]
                except KeyError:
                    return '<missing %s>' % p
            else:
                obj = getattr(obj, p, '<missing %s>' % p)
        if isinstance(obj, type):
            return '<class %s.%s bases=%s>' % (obj.__module__, obj.__qualname__,
                                               [b.__qualname__ for b in obj.__mro__[1:-1]])
        return repr(obj)
    return '<unresolvable>'


def field_roundtrip(value, legacy=False):
    """encode.encode_table_value then decode.embedded_value on the real code."""
    from pamqp import encode, decode
    old = encode.DEPRECATED_RABBITMQ_SUPPORT
    encode.DEPRECATED_RABBITMQ_SUPPORT = legacy
    try:
        data = encode.encode_table_value(value)
        consumed, back = decode.embedded_value(data + b'\xce\x00rest')
        return {'encoded': data, 'consumed': consumed, 'decoded': back}
    finally:
        encode.DEPRECATED_RABBITMQ_SUPPORT = old


def table_encodings(table):
    """encode.field_table of a dict and of the same contents inserted in reverse / rotated order; input left unchanged?"""
    import copy
    from pamqp import encode
    before = copy.deepcopy(table)
    first = encode.field_table(table)
    unchanged = (table == before) and list(table) == list(before)
    rev = dict(reversed(list(table.items())))
    items = list(table.items())
    rot = dict(items[1:] + items[:1])
    return {'encoded': first, 'again': encode.field_table(table), 'reversed': encode.field_table(rev),
            'rotated': encode.field_table(rot), 'input_unchanged': unchanged}


def decode_value(data):
    from pamqp import decode
    consumed, value = decode.embedded_value(data)
    return {'consumed': consumed, 'decoded': value}


def decode_table(data):
    from pamqp import decode
    consumed, value = decode.field_table(data)
    return {'consumed': consumed, 'decoded': value}


def mapping_views():
    """For every method class and Basic.Properties, in one process and twice over: the six mapping views."""
    import warnings
    from pamqp import commands
    warnings.simplefilter('ignore')
    classes = list(commands.INDEX_MAPPING.values()) + [commands.Basic.Properties]
    out = []
    for _round in range(2):
        for cls in classes:
            obj = cls()
            names = [k for k, _ in iter(obj)]
            out.append({'class': cls.name, 'iter': names, 'len': len(obj), 'attributes': list(cls.attributes()),
                        'contains': [n in obj for n in names] + ['no_such_argument' in obj],
                        'getitem_agrees': all(obj[n] == getattr(obj, n) or obj[n] is getattr(obj, n) for n in names),
                        'types': [cls.amqp_type(n) for n in names], 'dict_keys': list(dict(obj))})
    return out


def unmarshal_measured(data):
    """frame.unmarshal under tracemalloc and a line counter restricted to pamqp's own files: outcome class, peak
    allocation in octets, trace events inside pamqp.  One warm-up call on a fixed frame keeps lazy imports and
    first-use caches out of the measurement."""
    import sys
    import tracemalloc
    from pamqp import frame, exceptions
    try:
        frame.unmarshal(b'\x01\x00\x01\x00\x00\x00\x0d\x00\x32\x00\x0a\x00\x00\x01q\x00\x00\x00\x00\x00\xce')
    except Exception:
        pass
    outer = sys.gettrace()
    count = [0]

    def tracer(frm, event, arg):
        if '/pamqp/' in frm.f_code.co_filename:
            count[0] += 1
        if outer is not None:
            outer(frm, event, arg)
        return tracer
    tracemalloc.start()
    try:
        sys.settrace(tracer)
        try:
            n, ch, obj = frame.unmarshal(data)
            outcome = 'returned %s' % type(obj).__name__
        except exceptions.UnmarshalingException:
            outcome = 'UnmarshalingException'
        finally:
            sys.settrace(outer)
        peak = tracemalloc.get_traced_memory()[1]
    finally:
        tracemalloc.stop()
    return {'outcome': outcome, 'peak': peak, 'len': len(data), 'events': count[0]}
