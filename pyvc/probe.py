"""Native probes used by replay files of ground obligations (runs under /venv/bin/python)."""
import importlib


def attr(path):
    """repr of a dotted attribute path, e.g. pamqp.commands.Basic.Get.valid_responses"""
    parts = path.split('.')
    for i in range(len(parts), 0, -1):
        try:
            obj = importlib.import_module('.'.join(parts[:i]))
        except ImportError:
            continue
        for p in parts[i:]:
            if isinstance(obj, dict):
                try:
                    obj = obj[int(p)] if p.lstrip('-').isdigit() else obj[p]
                except KeyError:
                    return '<missing %s>' % p
            else:
                obj = getattr(obj, p, '<missing %s>' % p)
        if isinstance(obj, type):
            return '<class %s.%s bases=%s>' % (obj.__module__, obj.__qualname__,
                                               [b.__qualname__ for b in obj.__mro__[1:-1]])
        return repr(obj)
    return '<unresolvable>'


def field_roundtrip(value, legacy=False):
    """encode.encode_table_value then decode.embedded_value on the real code."""
    from pamqp import encode, decode
    old = encode.DEPRECATED_RABBITMQ_SUPPORT
    encode.DEPRECATED_RABBITMQ_SUPPORT = legacy
    try:
        data = encode.encode_table_value(value)
        consumed, back = decode.embedded_value(data + b'\xce\x00rest')
        return {'encoded': data, 'consumed': consumed, 'decoded': back}
    finally:
        encode.DEPRECATED_RABBITMQ_SUPPORT = old


def table_encodings(table):
    """encode.field_table of a dict and of the same contents inserted in reverse / rotated order; input left unchanged?"""
    import copy
    from pamqp import encode
    before = copy.deepcopy(table)
    first = encode.field_table(table)
    unchanged = (table == before) and list(table) == list(before)
    rev = dict(reversed(list(table.items())))
    items = list(table.items())
    rot = dict(items[1:] + items[:1])
    return {'encoded': first, 'again': encode.field_table(table), 'reversed': encode.field_table(rev),
            'rotated': encode.field_table(rot), 'input_unchanged': unchanged}


def decode_value(data):
    from pamqp import decode
    consumed, value = decode.embedded_value(data)
    return {'consumed': consumed, 'decoded': value}


def decode_table(data):
    from pamqp import decode
    consumed, value = decode.field_table(data)
    return {'consumed': consumed, 'decoded': value}


def mapping_views():
    """For every method class and Basic.Properties, in one process and twice over: the six mapping views."""
    import warnings
    from pamqp import commands
    warnings.simplefilter('ignore')
    classes = list(commands.INDEX_MAPPING.values()) + [commands.Basic.Properties]
    out = []
    for _round in range(2):
        for cls in classes:
            obj = cls()
            names = [k for k, _ in iter(obj)]
            out.append({'class': cls.name, 'iter': names, 'len': len(obj), 'attributes': list(cls.attributes()),
                        'contains': [n in obj for n in names] + ['no_such_argument' in obj],
                        'getitem_agrees': all(obj[n] == getattr(obj, n) or obj[n] is getattr(obj, n) for n in names),
                        'types': [cls.amqp_type(n) for n in names], 'dict_keys': list(dict(obj))})
    return out


def unmarshal_measured(data):
    """frame.unmarshal under tracemalloc and a line counter restricted to pamqp's own files: outcome class, peak
    allocation in octets, trace events inside pamqp.  One warm-up call on a fixed frame keeps lazy imports and
    first-use caches out of the measurement."""
    import sys
    import tracemalloc
    from pamqp import frame, exceptions
    try:
        frame.unmarshal(b'\x01\x00\x01\x00\x00\x00\x0d\x00\x32\x00\x0a\x00\x00\x01q\x00\x00\x00\x00\x00\xce')
    except Exception:
        pass
    outer = sys.gettrace()
    count = [0]

    def tracer(frm, event, arg):
        if '/pamqp/' in frm.f_code.co_filename:
            count[0] += 1
        if outer is not None:
            outer(frm, event, arg)
        return tracer
    tracemalloc.start()
    try:
        sys.settrace(tracer)
        try:
            n, ch, obj = frame.unmarshal(data)
            outcome = 'returned %s' % type(obj).__name__
        except exceptions.UnmarshalingException:
            outcome = 'UnmarshalingException'
        finally:
            sys.settrace(outer)
        peak = tracemalloc.get_traced_memory()[1]
    finally:
        tracemalloc.stop()
    return {'outcome': outcome, 'peak': peak, 'len': len(data), 'events': count[0]}


# ---------------------------------------------------------------- calls of the API-session check (bounded.session_history)
def _cls(classname):
    from pamqp import commands
    obj = commands
    for p in classname.split('.'):
        obj = getattr(obj, p)
    return obj


def session_marshal(classname, attrs, channel):
    from pamqp import frame
    return frame.marshal(_cls(classname)(**attrs), channel)


def session_texts(classname, attrs):
    """repr / str / format / comparison / hash-free dunder calls of one instance (none of which may change anything)."""
    obj = _cls(classname)(**attrs)
    same = obj == obj
    return [isinstance(repr(obj), str), isinstance(str(obj), str), isinstance(format(obj), str), bool(same)]


def session_views(classname, attrs):
    """The mapping views of one instance."""
    cls = _cls(classname)
    obj = cls(**attrs)
    names = [k for k, _ in iter(obj)]
    return {'iter': names, 'values': [v for _, v in iter(obj)], 'len': len(obj),
            'attributes': list(cls.attributes()), 'contains': [n in obj for n in names],
            'types': [cls.amqp_type(n) for n in names], 'dict_keys': list(dict(obj)), 'marshal': obj.marshal()}


def session_default(classname):
    """Default construction; the returned snapshot is taken before the instance's tables are scribbled on."""
    obj = _cls(classname)()
    snap = {k: (dict(v) if isinstance(v, dict) else v) for k, v in iter(obj)}
    for k, v in iter(obj):
        if isinstance(v, dict):
            v['x-session-scribble'] = 1
    return snap


def session_header(mutate):
    from pamqp import header
    h = header.ContentHeader()
    snap = [dict(iter(h.properties)), h.marshal(), h.class_id, h.weight, h.body_size]
    if mutate:
        h.properties.delivery_mode = 2
        h.properties.content_type = 'text/plain'
        h.properties.headers = {'x-retry': 1}
    return snap


def session_unmarshal(data):
    """frame.unmarshal; the snapshot is taken before every table / property object of the result is scribbled on."""
    from pyvc import values
    from pamqp import frame
    n, ch, obj = frame.unmarshal(data)
    snap = values.encode((n, ch, obj))
    for target in (obj, getattr(obj, 'properties', None)):
        if target is None or not hasattr(target, '__slots__'):
            continue
        for k in target.__slots__:
            v = getattr(target, k, None)
            if isinstance(v, dict):
                v['x-session-scribble'] = 1
            elif isinstance(v, list):
                v.append('x-session-scribble')
    if hasattr(obj, 'properties') and hasattr(obj.properties, 'message_id'):
        obj.properties.message_id = 'scribbled'
    return snap


def session_table(table):
    """encode.field_table of a table that may hold an unencodable value, then of the same object repaired."""
    from pamqp import encode
    try:
        first = encode.field_table(table)
    except (TypeError, ValueError, OverflowError) as exc:
        first = type(exc).__name__
    table.pop('bad', None)
    return [first, encode.field_table(table)]


# ---------------------------------------------------------------- fresh-process probes (props/ground2.py)
def import_state():
    """What importing the package leaves behind, as JSON-able data."""
    from pamqp import commands, constants, encode, exceptions
    return {
        'legacy_switch': encode.DEPRECATED_RABBITMQ_SUPPORT,
        'index_mapping': sorted('%08x:%s' % (k, v.name) for k, v in commands.INDEX_MAPPING.items()),
        'reply_codes': sorted('%d:%s' % (k, v.__name__) for k, v in exceptions.CLASS_MAPPING.items()),
        'constants': sorted('%s=%r' % (k, getattr(constants, k)) for k in dir(constants)
                            if k.isupper() and isinstance(getattr(constants, k), (int, str, bytes, float))),
        'domain_regex': sorted('%s=%s' % (k, v.pattern) for k, v in constants.DOMAIN_REGEX.items()),
        'table_integer_200': encode.table_integer(200).hex(), 'table_integer_40000': encode.table_integer(40000).hex(),
    }


def reply_code_use():
    from pamqp import exceptions as ex
    before = dict(ex.CLASS_MAPPING)
    subs = [type('App' + cls.__name__, (cls,), {}) for cls in before.values()]
    changed = sorted(code for code, cls in before.items() if ex.CLASS_MAPPING.get(code) is not cls)
    changed += sorted(code for code in ex.CLASS_MAPPING if code not in before)
    for code, cls in before.items():
        ex.CLASS_MAPPING[code] = cls
    bad, cross = [], []
    for code, cls in before.items():
        for how in ('bare', 'text'):
            try:
                if how == 'bare':
                    raise cls
                raise cls('reply text')
            except cls:
                pass
            except BaseException as exc:
                bad.append('%d %s: %s' % (code, how, type(exc).__name__))
        for code2, other in before.items():
            if other is not cls and issubclass(cls, other):
                cross.append('%d caught as %d' % (code, code2))
    return {'changed_by_subclassing': changed, 'not_raisable': bad, 'cross_caught': cross, 'subclasses': len(subs)}


def _outcome(f):
    try:
        return ['return', f()]
    except Exception as exc:       # noqa: BLE001 - the class is the observation
        return ['raise', type(exc).__name__]


def session_remarshal(classname, attrs, changes, channel):
    """Encode, change attributes, encode again: the second encoding must be what a new object holding the same
    (changed) attribute values gives - an encoding depends on the current values only."""
    from pamqp import frame
    cls = _cls(classname)
    obj = cls(**attrs)
    first = _outcome(lambda: frame.marshal(obj, channel))
    for k, v in changes.items():
        setattr(obj, k, v)
    second = _outcome(lambda: frame.marshal(obj, channel))
    other = cls(**attrs)
    for k, v in changes.items():
        setattr(other, k, v)
    third = _outcome(lambda: frame.marshal(other, channel))
    return {'first': first, 'second': second, 'must_hold': {'re-encoding after a change == encoding of an equal new object': second == third}}


def session_table_repair(table, path):
    """A table whose nested container ends in an unencodable value: encoding fails; after the caller removes that value
    the SAME objects must encode exactly like an equal, newly built table."""
    import copy
    from pamqp import encode
    first = _outcome(lambda: encode.field_table(table))
    node = table
    for k in path:
        node = node[k]
    node.pop()
    second = _outcome(lambda: encode.field_table(table))
    third = _outcome(lambda: encode.field_table(copy.deepcopy(table)))
    return {'first': first, 'second': second, 'must_hold': {'repaired table encodes like an equal new table': second == third}}
