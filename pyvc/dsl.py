"""pyvc.dsl -- small helpers for writing guards that are python bools or z3 terms."""
import z3

from . import sym
from .sym import SInt, SBool, I, B, mk_bool, mk_int


def _t(x):
    if isinstance(x, SBool):
        return x.t
    return x


def conj(*xs):
    terms = []
    for x in xs:
        x = _t(x)
        if x is False:
            return False
        if x is True:
            continue
        terms.append(x)
    if not terms:
        return True
    return z3.And(terms) if len(terms) > 1 else terms[0]


def disj(*xs):
    terms = []
    for x in xs:
        x = _t(x)
        if x is True:
            return True
        if x is False:
            continue
        terms.append(x)
    if not terms:
        return False
    return z3.Or(terms) if len(terms) > 1 else terms[0]


def neg(x):
    x = _t(x)
    if isinstance(x, bool):
        return not x
    return z3.Not(x)


def implies(a, b):
    return disj(neg(a), b)


def in_range(v, lo, hi):
    """lo <= v <= hi for an int-like v (python or symbolic)."""
    if isinstance(v, (int, bool)):
        return lo <= int(v) <= hi
    t = I(v)
    return z3.And(t >= lo, t <= hi)


def eq(a, b):
    if isinstance(a, (int, bool)) and isinstance(b, (int, bool)):
        return int(a) == int(b)
    return I(a) == I(b)


def le(a, b):
    if isinstance(a, (int, bool)) and isinstance(b, (int, bool)):
        return int(a) <= int(b)
    return I(a) <= I(b)


def lt(a, b):
    if isinstance(a, (int, bool)) and isinstance(b, (int, bool)):
        return int(a) < int(b)
    return I(a) < I(b)


def is_int(v):
    """Python isinstance(v, int) (bool included)."""
    return sym.is_intlike(v)


def is_true(st, x):
    """Concrete truth of a guard on concrete arguments (replay side)."""
    x = _t(x)
    if isinstance(x, bool):
        return x
    s = z3.simplify(x)
    if z3.is_true(s):
        return True
    if z3.is_false(s):
        return False
    raise ValueError('guard not concrete: %s' % s)
