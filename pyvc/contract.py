"""pyvc.contract -- sidecar contracts: declaration, verification of the real
body against them, and use at call sites (callers see only the contract)."""
import contextlib
import importlib
import inspect
import itertools
import time
import traceback

import z3

from . import sym
from .sym import (State, SInt, SBool, SBytes, SStr, SFloat, SOpaque, SObj, SExc, SCond, Chunk,
                  Raised, OutOfSubset, EngineError, Infeasible, I, B, mk_int, mk_bool)
from .interp import Interp, qualname, pytype, function_ast
from .loops import CutPath


# ---------------------------------------------------------------- type specs
class TSpec:
    """A set of type classes an argument ranges over; one verification
    instance per class (DESIGN 2.3: typed symbolic execution)."""

    def __init__(self, makers):
        self.makers = list(makers)  # [(label, maker(st, name) -> value)]

    def __or__(self, other):
        return TSpec(self.makers + other.makers)

    def instances(self):
        return self.makers


obj_nonempty = z3.Function('obj_nonempty', sym.ObjS, z3.BoolSort())


def _opaque(kind):
    def mk(st, name):
        t = st.fresh(name + '_' + kind, sym.ObjS)
        info = {}
        if kind in ('dict', 'list', 'tuple'):
            info['truthy'] = obj_nonempty(t)
            info['param'] = name
        return SOpaque(kind, t, info)
    return mk


def _mk_bytes(mutable):
    def mk(st, name):
        return SBytes([st.new_chunk(name)], mutable)
    return mk


class T:
    int = TSpec([('int', lambda st, n: SInt(st.fresh_int(n)))])
    bool = TSpec([('bool', lambda st, n: SBool(st.fresh_bool(n)))])
    bytes = TSpec([('bytes', _mk_bytes(False))])
    bytearray = TSpec([('bytearray', _mk_bytes(True))])
    str = TSpec([('str', lambda st, n: st.new_str(n))])
    float = TSpec([('float', lambda st, n: SFloat(st.fresh(n, sym.FloatS)))])
    none = TSpec([('None', lambda st, n: None)])
    decimal = TSpec([('Decimal', _opaque('decimal'))])
    dt_naive = TSpec([('datetime-naive', _opaque('datetime_naive'))])
    dt_aware = TSpec([('datetime-aware', _opaque('datetime_aware'))])
    struct_time = TSpec([('struct_time', _opaque('struct_time'))])
    dict = TSpec([('dict', _opaque('dict'))])
    list = TSpec([('list', _opaque('list'))])
    tuple = TSpec([('tuple', _opaque('tuple'))])
    foreign = TSpec([('foreign', _opaque('foreign'))])

    @staticmethod
    def const(v, label=None):
        return TSpec([(label or repr(v), lambda st, n: v)])

    @staticmethod
    def custom(label, maker):
        return TSpec([(label, maker)])


T.any = (T.bool | T.int | T.float | T.decimal | T.str | T.bytes | T.bytearray | T.dt_naive
         | T.dt_aware | T.struct_time | T.dict | T.list | T.tuple | T.none | T.foreign)


STANDARD_LABELS = {m[0] for m in T.any.makers}


def type_label(v):
    """The type class (a label of T.any) of a run-time value, symbolic or concrete; None when it cannot be told."""
    import datetime as _dt
    import decimal as _dec
    import time as _time
    if v is None:
        return 'None'
    if isinstance(v, (SBool, bool)):
        return 'bool'
    if isinstance(v, (SInt, int)):
        return 'int'
    if isinstance(v, (SFloat, float)):
        return 'float'
    if isinstance(v, (SStr, str)):
        return 'str'
    if isinstance(v, SBytes):
        return 'bytearray' if v.mutable else 'bytes'
    if isinstance(v, (bytes, bytearray)):
        return type(v).__name__
    if isinstance(v, SOpaque):
        return {'decimal': 'Decimal', 'datetime_naive': 'datetime-naive', 'datetime_aware': 'datetime-aware',
                'struct_time': 'struct_time', 'dict': 'dict', 'list': 'list', 'tuple': 'tuple', 'foreign': 'foreign'}.get(v.kind)
    if isinstance(v, _dec.Decimal):
        return 'Decimal'
    if isinstance(v, _dt.datetime):
        return 'datetime-naive' if v.tzinfo is None else 'datetime-aware'
    if isinstance(v, _time.struct_time):
        return 'struct_time'
    if isinstance(v, (dict, list, tuple)):
        return type(v).__name__
    return None


def not_types(*labels):
    return TSpec([m for m in T.any.makers if m[0] not in labels])


# ---------------------------------------------------------------- contracts
class Case:
    def __init__(self, name, when=None, returns=None, raises=None, post=None, effects=None,
                 may_raise=None, havoc=None, need_cover=True, garbles=False, fresh_result=False):
        self.fresh_result = fresh_result   # mutable containers in the result must have been allocated by this call (C16)
        self.garbles = garbles      # taking this clause at a call site means "the input was not grammar-valid":
        #                             from then on callees are summarised by their weakest clause (over-approximation)
        self.need_cover = need_cover  # must some path reach this case (vacuity guard)?
        self.may_raise = may_raise  # exception classes the function may raise instead of returning (relational cases)
        self.havoc = havoc          # ctx -> fresh result value satisfying `post` (used at call sites for relational cases)
        self.name = name
        self.when = when          # ctx -> bool/term; None = always
        self.returns = returns    # ctx -> expected value  (function of the arguments)
        self.raises = raises      # exception class (or tuple)
        self.post = post          # (ctx, result) -> bool/term  (relational postcondition)
        self.effects = effects    # ctx -> None; state changes applied at call sites (e.g. attribute stores)


class Ctx:
    """What guards / result functions see."""

    def __init__(self, st, args, ip=None, extra=None):
        self.st = st
        self.args = args
        self.ip = ip
        self.ghost = {}
        self.reads = {}
        if extra:
            self.__dict__.update(extra)

    def __getattr__(self, k):
        a = self.__dict__.get('args') or {}
        if k in a:
            return a[k]
        raise AttributeError(k)


class Contract:
    def __init__(self, target, params, cases, requires=None, reads=(), modifies=(), inline=(),
                 loops=None, selector=None, name=None, pure=True, setup=None, trusted=False, doc='',
                 bounded=True, complete=False, view=None, views=None, check_cases=None, fallback=None,
                 bounded_only=False, established_by=None, selector_bound=None):
        self.selector_bound = selector_bound   # like selector, but on the arguments after binding keywords and defaults
        self.established_by = established_by   # trusted views only: reg -> names of the verified contracts it is a union / weakening of
        self.bounded_only = bounded_only  # outside the executor's subset by nature: only the bounded run-time stand-in
        #                                   (labelled bounded in the evidence, never an obligation, never 'discharged')
        self.fallback = fallback        # weakest clause (subsumes all others): used once the path is 'garbled'
        self.view = view                # name of this view of the function (None = the default one callers see)
        self.views = views or {}        # while verifying this contract: callee qualified name -> view to use
        self.check_cases = check_cases  # verify only these clauses here (the others are verified on another instance set)
        self.complete = complete        # cases are exhaustive by construction (g / not g): skip that obligation
        self.target = target            # 'pamqp.encode.short_uint' or 'pamqp.base.Frame.marshal'
        self.params = params            # [(name, TSpec)]
        self.cases = cases
        self.requires = requires        # ctx -> term (assumed when verifying, proved at call sites)
        self.reads = list(reads)        # [(module, var, TSpec)] globals read
        self.modifies = modifies        # names of globals / 'self.attr' the function may write
        self.inline = inline            # qualified names of helpers executed inline
        self.loops = loops or {}
        self.selector = selector        # (fn, args) -> bool: does this contract cover the call?
        self.name = name or target
        self.pure = pure
        self.setup = setup              # (st, args dict) -> None, extra set-up for verification
        self.trusted = trusted          # assumed, not verified against a body (listed in evidence)
        self.doc = doc
        self.bounded = bounded          # run the bounded run-time stand-in on this contract?
        self._fn = None

    # -- resolve the real function object
    def fn(self):
        if self._fn is None:
            self._fn = resolve(self.target)
        return self._fn

    # -- call-site use
    def apply(self, ip, fn, args, kwargs):
        st = ip.st
        bound = bind_args(fn, args, kwargs)
        ctx = Ctx(st, bound, ip)
        self.fill_reads(ctx, ip)
        # the contract was verified for arguments of the listed type classes only: an actual argument of another class
        # is outside what was proved about the callee (undecided at the caller, never silently assumed)
        for pname, spec in self.params:
            labels = {m[0] for m in spec.makers}
            if getattr(spec, 'optional', False):
                labels = labels | {'None'}
            if pname in bound and labels <= STANDARD_LABELS:
                for v in ([] if isinstance(bound[pname], SCond) else [bound[pname]]):
                    lab = type_label(v)
                    if lab is not None and lab not in labels:
                        raise OutOfSubset('argument %s of %s is a %s: the contract was verified for %s only'
                                          % (pname, self.name, lab, sorted(labels)))
        if self.requires is not None:
            req = self.requires(ctx)
            st.oblige('%s#requires@callsite' % self.name, req)
        chosen = None
        if getattr(st, 'garbled', False) and self.fallback is not None:
            chosen = self.fallback
        else:
            for c in self.cases:
                g = True if c.when is None else c.when(ctx)
                if isinstance(g, SBool):
                    g = g.t
                if g is True or (not isinstance(g, bool) and st.branch(g, 'contract:%s:%s' % (self.name, c.name))):
                    chosen = c
                    break
        if chosen is not None and chosen.garbles:
            st.garbled = True
        try:
            return self._finish(ip, st, ctx, chosen)
        except (Raised, Infeasible, OutOfSubset, EngineError, CutPath):
            raise
        except Exception as exc:      # a specification callback met a state it was not written for: undecided, never a crash
            raise OutOfSubset('specification side of %s failed on this path: %r' % (self.name, exc))

    def _finish(self, ip, st, ctx, chosen):
        if chosen is None:
            # no case applies: the caller failed to establish the (implicit) precondition
            st.oblige('%s#some-case-applies@callsite' % self.name, False)
            raise Infeasible()
        if chosen.effects is not None:
            chosen.effects(ctx)
        if chosen.raises is not None:
            cls = chosen.raises if isinstance(chosen.raises, type) else chosen.raises[0]
            raise Raised(cls, ('<from contract %s>' % self.name,))
        if chosen.may_raise:
            for k in (chosen.may_raise if isinstance(chosen.may_raise, tuple) else (chosen.may_raise,)):
                if st.branch(st.fresh_bool('callee_raises_%s' % k.__name__), 'contract:%s:%s:raises-%s' % (self.name, chosen.name, k.__name__)):
                    raise Raised(k, ('<from contract %s>' % self.name,))
        if chosen.havoc is not None:
            res = chosen.havoc(ctx)
            if chosen.post is not None:
                p = chosen.post(ctx, res)
                if isinstance(p, tuple):
                    p = p[0]
                st.assume(B(p) if not isinstance(p, bool) else p)
            return res
        if chosen.returns is not None:
            res = chosen.returns(ctx)
            if chosen.fresh_result:
                mark_fresh(st, res)       # promised (and verified) by the callee's own contract
            return res
        if chosen.post is not None and chosen.effects is None:
            raise EngineError('relational post used at a call site without a result maker: %s' % self.name)
        return None

    def fill_reads(self, ctx, ip):
        for mod, var, _ in self.reads:
            if (mod, var) in ip.st.global_over:
                ctx.reads[var] = ip.st.global_over[(mod, var)]
            else:
                ctx.reads[var] = getattr(importlib.import_module(mod), var)


def resolve(target):
    parts = target.split('.')
    for i in range(len(parts), 0, -1):
        try:
            obj = importlib.import_module('.'.join(parts[:i]))
        except ImportError:
            continue
        for p in parts[i:]:
            raw = None
            if isinstance(obj, type):
                raw = Interp.class_lookup(obj, p)
            obj = getattr(obj, p)
            if isinstance(raw, (classmethod, staticmethod)):
                obj = raw.__func__
        return getattr(obj, '__func__', obj)
    raise EngineError('cannot resolve %s' % target)


def bind_args(fn, args, kwargs):
    import inspect
    fn = inspect.unwrap(fn)
    names = list(inspect.signature(fn).parameters)
    bound = {}
    for n, v in zip(names, args):
        bound[n] = v
    for k, v in (kwargs or {}).items():
        bound[k] = v
    defaults = fn.__defaults__ or ()
    for n, d in zip(names[len(names) - len(defaults):], defaults):
        bound.setdefault(n, d)
    missing = [n for n in names if n not in bound]
    if missing or len(args) > len(names):
        raise Raised(TypeError, ('bad call arity',))
    return bound


class Registry:
    def __init__(self):
        self.by_fn = {}   # function object -> [Contract]
        self.all = []

    def add(self, c):
        self.all.append(c)
        self.by_fn.setdefault(c.fn(), []).append(c)
        return c

    def lookup(self, fn, args, views=None, kwargs=None):
        want = None
        if views:
            from .interp import qualname
            try:
                want = views.get(qualname(fn))
            except AttributeError:
                want = None
        for c in self.by_fn.get(fn, ()):
            if c.view != want:
                continue
            if c.selector is not None and not c.selector(fn, args):
                continue
            if c.selector_bound is not None:
                try:
                    if not c.selector_bound(bind_args(fn, args, kwargs)):
                        continue
                except Raised:
                    continue
            return c
        return None

    def has(self, fn):
        try:
            return fn in self.by_fn
        except TypeError:
            return False

    def get(self, name):
        for c in self.all:
            if c.name == name:
                return c
        raise KeyError(name)


# ---------------------------------------------------------------- value equality
def values_equal(st, a, b):
    """(term-or-bool, exact).  Type-sensitive: True is not 1, bytes is not
    bytearray (the properties speak of 'equal in value and Python type')."""
    if a is b:
        return True, True
    if isinstance(a, (bytes, bytearray)) and isinstance(b, (bytes, bytearray)):
        return (type(a) is type(b) and a == b), True          # concrete fast path
    if isinstance(a, float) and isinstance(b, float):
        return (a == b or (a != a and b != b)), True          # NaN equals NaN (C03 normalisation)
    if isinstance(a, SCond) or isinstance(b, SCond):
        # cond ? x : y  compared branch-wise, each branch under its condition
        from .dsl import conj, implies, neg
        x, other = (a, b) if isinstance(a, SCond) else (b, a)
        out, exact = [], True
        for val, c in ((True, x.cond), (False, z3.Not(x.cond))):
            if not st.can(c):
                continue
            with scope(st):
                # decided inside the scope: the branch value may be a thunk whose facts live only here
                st.assume(c)
                t, e = values_equal(st, x.a if val else x.b, other)
                if isinstance(t, SBool):
                    t = t.t
                ok = t is True or (t is not False and st.check(z3.Not(t)) == z3.unsat)
            exact = exact and e
            out.append(ok)
        return all(out), exact
    if a is None or b is None:
        return (a is None and b is None), True
    ta, tb = pytype(a), pytype(b)
    if ta is not tb:
        return False, True
    if sym.is_intlike(a) and sym.is_intlike(b):
        return mk_bool(I(a) == I(b)), True
    if sym.is_byteslike(a) and sym.is_byteslike(b):
        t, exact = st.rope_eq(a, b)
        return mk_bool(t), exact
    if sym.is_strlike(a) and sym.is_strlike(b):
        return st.str_eq(a, b), True
    if isinstance(a, (tuple, list)) and isinstance(b, (tuple, list)):
        if len(a) != len(b):
            return False, True
        terms, exact = [], True
        for x, y in zip(a, b):
            t, e = values_equal(st, x, y)
            exact = exact and e
            if t is False:
                return False, exact
            if t is not True:
                terms.append(B(t))
        return (mk_bool(z3.And(terms)) if terms else True), exact
    if isinstance(a, dict) and isinstance(b, dict):
        if set(a) != set(b):
            return False, True
        ks = list(a)
        return values_equal(st, [a[k] for k in ks], [b[k] for k in ks])
    if isinstance(a, SFloat) or isinstance(b, SFloat):
        if isinstance(a, SFloat) and isinstance(b, SFloat):
            return mk_bool(a.t == b.t), True
        return False, False
    if isinstance(a, SOpaque) and isinstance(b, SOpaque):
        if a.kind != b.kind:
            return False, True
        return mk_bool(a.t == b.t), True
    if isinstance(a, SObj) and isinstance(b, SObj):
        if a is b:
            return True, True
        if a.cls is not b.cls or set(a.attrs) != set(b.attrs):
            return False, True
        ks = sorted(a.attrs)
        return values_equal(st, [a.attrs[k] for k in ks], [b.attrs[k] for k in ks])
    if not sym.is_symbolic(a) and not sym.is_symbolic(b):
        try:
            return bool(a == b), True
        except Exception:
            return False, False
    return False, False


# ---------------------------------------------------------------- verification
class Result:
    """One obligation."""
    __slots__ = ('name', 'verdict', 'seconds', 'backend', 'detail', 'model', 'smt2', 'kind', 'replay')

    def __init__(self, name, verdict, seconds=0.0, backend='z3-api-5.1', detail='', model=None, smt2=None,
                 kind='post'):
        self.name = name
        self.verdict = verdict    # 'proved' | 'refuted' | 'undecided'
        self.seconds = seconds
        self.backend = backend
        self.detail = detail
        self.model = model        # concretised inputs when refuted
        self.smt2 = smt2
        self.kind = kind
        self.replay = None

    def to_json(self):
        return {'name': self.name, 'verdict': self.verdict, 'seconds': round(self.seconds, 4),
                'backend': self.backend, 'detail': self.detail, 'kind': self.kind, 'replay': self.replay}


@contextlib.contextmanager
def scope(st):
    st.solver.push()
    snap = (len(st.pc), dict(st.refine), dict(st.pack_cache), set(st.facts_done), dict(st.str_lits),
            len(st.obligations), len(st.decisions), list(st.prefix), list(st.pending), dict(st.decided),
            dict(st.cond_defs))
    try:
        yield
    finally:
        st.solver.pop()
        del st.pc[snap[0]:]
        st.refine = snap[1]
        st.pack_cache = snap[2]
        st.facts_done = snap[3]
        st.str_lits = snap[4]
        del st.decisions[snap[6]:]
        st.prefix = snap[7]
        st.pending = snap[8]
        st.decided = snap[9]
        st.cond_defs = snap[10]


def explore(st, fn):
    """Run fn() (specification-side evaluation that may branch) once per
    feasible decision sequence, each time in its own scope."""
    base = [d.value for d in st.decisions]
    work = [[]]
    n = 0
    while work:
        mini = work.pop()
        n += 1
        if n > 3000:
            raise EngineError('specification-side evaluation explodes')
        with scope(st):
            st.prefix = base + mini
            st.pending = []
            try:
                fn()
            except Infeasible:
                pass
            for alt in st.pending:
                work.append(alt[len(base):])


def check_goal(st, name, goal, exact=True, kind='post', want_smt2=False, concretise=None):
    """Discharge `goal` under the current path condition."""
    t0 = time.time()
    if isinstance(goal, SBool):
        goal = goal.t
    if isinstance(goal, bool):
        if goal:
            return Result(name, 'proved', 0.0, 'syntactic', kind=kind)
        # goal is literally False: refuted iff the path condition is satisfiable
        r = st.check()
        if r == z3.unsat:
            return Result(name, 'proved', time.time() - t0, detail='vacuous: path infeasible', kind=kind)
        model = None
        if r == z3.sat and concretise is not None:
            first = st.solver.model()
            model = safe_concretise(concretise, small_model(st) or first)
        return Result(name, 'refuted' if r == z3.sat else 'undecided', time.time() - t0,
                      detail='goal is False on a feasible path', model=model, kind=kind)
    smt2 = None
    st.solver.push()
    try:
        st.solver.add(z3.Not(goal))
        if want_smt2:
            smt2 = st.solver.to_smt2()
        r = st.check()
        dt = time.time() - t0
        if r == z3.unsat:
            if not exact:
                return Result(name, 'undecided', dt, detail='byte shapes did not align (only lengths compared)',
                              smt2=smt2, kind=kind)
            return Result(name, 'proved', dt, smt2=smt2, kind=kind)
        if r == z3.sat:
            model = None
            if concretise is not None:
                first = st.solver.model()
                model = safe_concretise(concretise, small_model(st) or first)
            return Result(name, 'refuted', dt, detail='counter-model found', model=model, smt2=smt2, kind=kind)
        return Result(name, 'undecided', dt, detail='solver: %s' % st.solver.reason_unknown(), smt2=smt2,
                      kind=kind)
    finally:
        st.solver.pop()


_SMALL_CALLS = 0


def small_model(st):
    """The solver's counter-model is arbitrary (strings of 2^60 characters are common); a second query asks for one whose
    byte strings and texts are short, so that it can be materialised and replayed.  None when there is none / no time."""
    global _SMALL_CALLS
    _SMALL_CALLS += 1
    if _SMALL_CALLS > 40:        # per worker process and unit batch: replays are capped per clause anyway
        return None
    lens = []
    for t in st.keep:
        if z3.is_expr(t) and t.sort() == sym.BytesS:
            lens.append(sym.blen(t))
        elif z3.is_expr(t) and t.sort() == sym.StrS:
            lens.append(sym.nchars(t))
    if not lens:
        return None
    for bound in (6, 300, 70000):
        st.solver.push()
        try:
            st.solver.add(z3.And([l <= bound for l in lens]))
            if st.check() == z3.sat:
                return st.solver.model()
        except Exception:
            pass
        finally:
            st.solver.pop()
    return None


def safe_concretise(fn, model):
    try:
        return fn(model)
    except Exception as exc:  # never let model printing kill a verdict
        return {'error': 'concretise failed: %r' % (exc,)}


class Verifier:
    def __init__(self, registry, want_smt2=False, max_paths=4000, timeout_ms=10000):
        self.registry = registry
        self.want_smt2 = want_smt2
        self.max_paths = max_paths
        self.timeout_ms = timeout_ms
        self.budget_s = 240

    def instances(self, c):
        specs = [spec.instances() for _, spec in c.params]
        read_specs = [spec.instances() for _, _, spec in c.reads]
        for combo in itertools.product(*(specs + read_specs)):
            label = ','.join(i[0] for i in combo)
            yield label, combo

    def verify(self, c, only=None):
        """All obligations of contract c: returns (results, stats)."""
        global _SMALL_CALLS
        _SMALL_CALLS = 0
        results = []
        stats = {'paths': 0, 'queries': 0, 'instances': 0, 'cases_hit': set(), 'out_of_subset': [], 'callees': set()}
        if c.trusted or c.bounded_only:
            return results, stats
        for label, combo in self.instances(c):
            if only and label not in only:
                continue
            stats['instances'] += 1
            self.verify_instance(c, label, combo, results, stats)
        # cover: every case reachable (vacuity guard)
        for case in c.cases:
            if not case.need_cover or (c.check_cases is not None and case.name not in c.check_cases):
                continue
            hit = case.name in stats['cases_hit']
            results.append(Result('%s#cover:%s' % (c.name, case.name), 'proved' if hit else 'undecided',
                                  detail='' if hit else 'contract case never reached by any path', kind='cover'))
        return results, stats

    def make_ctx(self, c, st, combo, ip):
        args = {}
        n = len(c.params)
        for (pname, _), inst in zip(c.params, combo[:n]):
            args[pname] = inst[1](st, pname)
        ctx = Ctx(st, args, ip)
        for (mod, var, _), inst in zip(c.reads, combo[n:]):
            v = inst[1](st, var)
            st.global_over[(mod, var)] = v
            ctx.reads[var] = v
        if c.setup is not None:
            c.setup(ctx)
        if c.requires is not None:
            rq = c.requires(ctx)
            st.assume(B(rq) if not isinstance(rq, bool) else rq)
        return ctx

    def verify_instance(self, c, label, combo, results, stats):
        fn = c.fn()
        import types as _types
        if not isinstance(fn, _types.FunctionType):
            results.append(Result('%s[%s]#subset' % (c.name, label), 'undecided', kind='engine',
                                  detail='out of subset: target is not a plain function (wrapped/decorated): %r' % (fn,)))
            stats['out_of_subset'].append('wrapped target')
            return
        work = [[]]
        npath = 0
        base = '%s[%s]' % (c.name, label)
        t_begin = time.time()
        while work:
            prefix = work.pop()
            npath += 1
            if time.time() - t_begin > self.budget_s:
                results.append(Result(base + '#budget', 'undecided', kind='engine',
                                      detail='time budget of %ds for one instance exhausted after %d paths' % (self.budget_s, npath)))
                break
            if npath > self.max_paths:
                results.append(Result(base + '#paths', 'undecided', detail='more than %d paths' % self.max_paths,
                                      kind='engine'))
                break
            st = State(prefix, self.timeout_ms)
            ip = Interp(st, self.registry, inline=c.inline, top=(fn,), loops=c.loops, views=c.views)
            pname = '%s@p%d' % (base, npath)
            outcome = None
            try:
                ctx = self.make_ctx(c, st, combo, ip)
                st.concretise = (lambda st=st, ctx=ctx: lambda m: concretise_args(st, ctx, m))()
                pre_writes = len(st.writes)
                try:
                    arglist = [ctx.args[p] for p, _ in c.params]
                    val = ip.call_pamqp(fn, arglist, {})
                    outcome = ('return', val)
                except Raised as r:
                    if r.cls in (NameError, UnboundLocalError):
                        # not something the repository's tests would let through: an annotation no longer binds
                        raise OutOfSubset('%s raised: a sidecar annotation probably no longer matches the code' % r.cls.__name__)
                    outcome = ('raise', r.cls)
            except (Infeasible, CutPath):
                outcome = None
            except OutOfSubset as e:
                results.append(Result(pname + '#subset', 'undecided', detail='out of subset: %s' % e, kind='engine'))
                stats['out_of_subset'].append(str(e))
                outcome = None
            finally:
                work.extend(st.pending)
            stats['paths'] += 1
            stats['queries'] += st.n_queries
            stats.setdefault('callees', set()).update(ip.called)
            stats.setdefault('auto_inlined', set()).update(ip.auto_inlined)
            # in-path obligations (callee preconditions, loop invariants ...)
            for (oname, res) in getattr(st, 'checked', []):
                res.name = '%s#%s' % (pname, oname)
                results.append(res)
            if outcome is None:
                continue
            self.check_path(c, ctx, st, outcome, pname, results, stats)

    def check_path(self, c, ctx, st, outcome, pname, results, stats):
        conc = lambda m: concretise_args(st, ctx, m)
        from .dsl import conj, disj
        # (1) some case applies (exhaustiveness on this path)
        def exhaustive():
            guards = [True if k.when is None else k.when(ctx) for k in c.cases]
            results.append(check_goal(st, pname + '#some-case-applies', disj(*guards), kind='exhaustive',
                                      want_smt2=self.want_smt2, concretise=conc))
        if not c.complete:
            explore(st, exhaustive)
        # (2) each applicable case's outcome
        for k in c.cases:
            if c.check_cases is not None and k.name not in c.check_cases:
                continue
            if outcome[0] == 'raise':
                allowed = k.raises if k.raises is not None else k.may_raise
                if allowed and issubclass(outcome[1], allowed if isinstance(allowed, tuple) else (allowed,)):
                    # whatever the guard says, this outcome satisfies the clause
                    results.append(Result('%s#%s' % (pname, k.name), 'proved', 0.0, 'syntactic',
                                          detail='raised class allowed by this clause', kind='post'))
                    if k.when is None:
                        stats['cases_hit'].add(k.name)
                    elif k.name not in stats['cases_hit']:
                        def cover(k=k):           # reachability of the clause (vacuity guard), once
                            g = k.when(ctx)
                            g = g.t if isinstance(g, SBool) else g
                            if g is True or (g is not False and st.can(B(g))):
                                stats['cases_hit'].add(k.name)
                        explore(st, cover)
                    continue

            def one(k=k):
                try:
                    g = True if k.when is None else k.when(ctx)
                except (Infeasible, CutPath):
                    raise
                except Exception as e:
                    results.append(Result('%s#%s' % (pname, k.name), 'undecided',
                                          detail='guard not evaluable on this path: %r' % (e,)))
                    return
                if isinstance(g, SBool):
                    g = g.t
                if g is False:
                    return
                if g is not True:
                    if not st.can(B(g)):
                        return
                    st.assume(B(g))
                stats['cases_hit'].add(k.name)
                name = '%s#%s' % (pname, k.name)
                if outcome[0] == 'raise':
                    allowed = ()
                    if k.raises is not None:
                        allowed = k.raises if isinstance(k.raises, tuple) else (k.raises,)
                    elif k.may_raise:
                        allowed = k.may_raise if isinstance(k.may_raise, tuple) else (k.may_raise,)
                    ok = issubclass(outcome[1], tuple(allowed)) if allowed else False
                    r = check_goal(st, name, ok, kind='post', concretise=conc)
                    if not ok:
                        r.kind = 'raises'      # an exception the clause does not allow (C09 states this for every clause)
                        r.detail += '; path raises %s, contract allows %s' % (
                            outcome[1].__name__, '/'.join(a.__name__ for a in allowed) or 'no exception')
                    results.append(r)
                    return
                if k.raises is not None:
                    r = check_goal(st, name, False, kind='post', concretise=conc)
                    r.detail += '; expected raise %s, path returns' % (getattr(k.raises, '__name__', None) or '/'.join(x.__name__ for x in k.raises),)
                    results.append(r)
                    return
                try:
                    goal, exact = True, True
                    if k.returns is not None:
                        expected = k.returns(ctx)
                        goal, exact = values_equal(st, expected, outcome[1])
                    if k.post is not None:
                        g2, e2 = k.post(ctx, outcome[1]), True
                        if isinstance(g2, tuple):
                            g2, e2 = g2
                        goal, exact = conj(goal, g2), exact and e2
                except (OutOfSubset, EngineError) as e:
                    results.append(Result(name, 'undecided', detail='spec side out of subset: %s' % e))
                    return
                except (Infeasible, CutPath):
                    raise
                except Exception as e:     # a specification callback met a state it was not written for
                    results.append(Result(name, 'undecided', detail='specification side failed on this path: %r' % (e,)))
                    return
                if st.check() == z3.unsat:
                    # the guard plus the spec's own facts contradict the path: vacuous, not a proof
                    results.append(Result(name, 'undecided', detail='vacuous after evaluating the specification'))
                    return
                results.append(check_goal(st, name, goal, exact, kind='post', want_smt2=self.want_smt2,
                                          concretise=conc))
                if c.pure:
                    bad = [w for w in st.writes if len(w) > 1 and w[1] in ('param', 'module')]
                    gw = [w for w in st.global_writes if w[1] not in (c.modifies or ())]
                    results.append(check_goal(st, name + '#modifies-nothing', not bad and not gw, kind='frame', concretise=conc))
                if k.fresh_result:
                    results.append(check_goal(st, name + '#result-is-freshly-allocated', is_fresh(st, outcome[1]),
                                              kind='frame', concretise=conc))
            explore(st, one)


def mark_fresh(st, v):
    if isinstance(v, tuple):
        for x in v:
            mark_fresh(st, x)
    elif isinstance(v, (list, dict)):
        st.allocated(v)
        for x in (v.values() if isinstance(v, dict) else v):
            mark_fresh(st, x)
    elif isinstance(v, SObj):
        v.provenance = 'fresh'
        for x in v.attrs.values():
            mark_fresh(st, x)


def is_fresh(st, v):
    """No mutable part of v existed before this call."""
    if isinstance(v, (tuple,)):
        return all(is_fresh(st, x) for x in v)
    if isinstance(v, (list, dict)):
        return id(v) in st.fresh_ids and all(is_fresh(st, x) for x in (v.values() if isinstance(v, dict) else v))
    if isinstance(v, SObj):
        return v.provenance == 'fresh' and all(is_fresh(st, x) for x in v.attrs.values())
    if isinstance(v, SOpaque) and v.kind in ('dict', 'list'):
        return not v.info.get('param')
    return True


# give State an immediate-obligation facility
def _oblige(self, name, goal, info=None, exact=True):
    if not hasattr(self, 'checked'):
        self.checked = []
    res = check_goal(self, name, goal if not isinstance(goal, SBool) else goal.t, exact=exact, kind='callsite',
                     concretise=getattr(self, 'concretise', None))
    self.checked.append((name, res))
    if isinstance(goal, bool):
        if not goal:
            raise Infeasible()
    else:
        self.assume(B(goal))


State.oblige = _oblige


# ---------------------------------------------------------------- model -> python values
def concretise_value(st, v, m):
    ev = lambda t: m.eval(t, model_completion=True)
    if isinstance(v, SInt):
        n = ev(v.t).as_long()
        if any(v is x for x in getattr(st, 'subclass_values', ())):
            from . import values as _values
            return _values.IntSub(n)          # the path took the 'type(v) is a subclass of int' branch
        return n
    if isinstance(v, SBool):
        return z3.is_true(ev(v.t))
    if isinstance(v, SBytes):
        out = bytearray()
        for s in st.expand(v.segs):
            if isinstance(s, int):
                out.append(s)
            elif isinstance(s, Chunk):
                n = ev(s.len).as_long()
                if n > (1 << 22):
                    return {'__abstract__': 'bytes of %d octets' % n}
                valid = z3.is_true(ev(sym.utf8_valid(s.t)))
                out.extend((b'a' if valid else b'\xff') * max(0, min(n, 1 << 20)))
            else:
                out.append(ev(s).as_long() & 0xFF)
        return bytearray(out) if v.mutable else bytes(out)
    if isinstance(v, SStr):
        n = ev(sym.nchars(v.t)).as_long()
        L = ev(sym.blen(sym.utf8(v.t))).as_long()
        if n > 2000000 or L > 8000000:
            return {'__abstract__': 'str of %d characters' % n}      # not worth materialising for a replay
        enc = z3.is_true(ev(sym.encodable(v.t)))
        return build_string(n, L, enc)
    if isinstance(v, SObj):
        return {'__obj__': '%s.%s' % (v.cls.__module__, v.cls.__qualname__),
                'attrs': {k: concretise_value(st, x, m) for k, x in v.attrs.items()}}
    if isinstance(v, (list, tuple)):
        return type(v)(concretise_value(st, x, m) for x in v)
    if isinstance(v, dict):
        return {k: concretise_value(st, x, m) for k, x in v.items()}
    if isinstance(v, SCond):
        return concretise_value(st, v.a if z3.is_true(ev(v.cond)) else v.b, m)
    if isinstance(v, SOpaque) and v.kind in ('datetime_naive', 'datetime_aware', 'struct_time'):
        # the time model speaks about whole seconds since the epoch (and the UTC offset of an aware value) only
        import datetime as _dt
        import time as _time
        from spec import wire as _w
        try:
            s = ev(_w.dt_seconds(v.t)).as_long()
            if not 0 <= s <= 253402300799:
                return {'__abstract__': '%s %d s from the epoch' % (v.kind, s)}
            if v.kind == 'struct_time':
                return _time.gmtime(s)
            if v.kind == 'datetime_naive':
                return _dt.datetime(1970, 1, 1) + _dt.timedelta(seconds=s)
            off = ev(_w.dt_utcoffset(v.t)).as_long()
            if not -86400 < off < 86400:
                off = 19800 if off > 0 else -18000
            tz = _dt.timezone(_dt.timedelta(seconds=off))
            return (_dt.datetime(1970, 1, 1, tzinfo=_dt.timezone.utc) + _dt.timedelta(seconds=s)).astimezone(tz)
        except Exception:
            return {'__abstract__': v.kind}
    if isinstance(v, (SFloat, SOpaque)):
        return {'__abstract__': getattr(v, 'kind', 'float')}
    return v


def build_string(n, L, encodable=True):
    """A str with n characters and L utf-8 bytes (best effort)."""
    if n <= 0:
        return ''
    if not encodable:
        return '\ud800' + 'a' * (n - 1)
    extra = max(0, L - n)
    chars = []
    for _ in range(n):
        k = min(3, extra)
        extra -= k
        chars.append(['a', 'é', '€', '\U0001F600'][k])
    return ''.join(chars)


def concretise_args(st, ctx, m):
    out = {'args': {k: concretise_value(st, v, m) for k, v in ctx.args.items()}}
    if ctx.reads:
        out['globals'] = {k: concretise_value(st, v, m) for k, v in ctx.reads.items()}
    if ctx.ghost:
        out['ghost'] = {k: concretise_value(st, v, m) for k, v in ctx.ghost.items()}
    return out
