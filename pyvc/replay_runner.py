"""Runs under the pinned interpreter (/venv/bin/python, PYTHONPATH=/repo:/verif).
Reads JSON lines {target, args, kwargs, globals, self} on stdin, calls the
*real* function, prints one JSON line per call with the observed outcome.
No z3 here."""
import importlib
import os
import json
import signal
import sys
import time

from pyvc import values

STEP_BUDGET = 2_000_000
WALL_S = 5


class Budget(Exception):
    pass


def resolve(target):
    parts = target.split('.')
    for i in range(len(parts), 0, -1):
        try:
            obj = importlib.import_module('.'.join(parts[:i]))
        except ImportError:
            continue
        for p in parts[i:]:
            obj = getattr(obj, p)
        return obj
    raise ImportError(target)


def run_one(job):
    for k, v in job.get('env', {}).items():      # (fresh-process probes: set before the package is first imported)
        os.environ[k] = v
    fn = resolve(job['target'])
    args = [values.decode(a) for a in job.get('args', [])]
    kwargs = {k: values.decode(v) for k, v in job.get('kwargs', {}).items()}
    saved = []
    try:  # the one piece of module state the library has: always restored after a job
        _enc = importlib.import_module('pamqp.encode')
        saved.append((_enc, 'DEPRECATED_RABBITMQ_SUPPORT', _enc.DEPRECATED_RABBITMQ_SUPPORT))
    except Exception:
        pass
    for spec, val in job.get('globals', {}).items():
        modname, var = spec.rsplit('.', 1)
        mod = importlib.import_module(modname)
        saved.append((mod, var, getattr(mod, var)))
        setattr(mod, var, values.decode(val))
    if job.get('tz'):
        saved_tz = os.environ.get('TZ')
        os.environ['TZ'] = job['tz']
        time.tzset()
    steps = [0]

    def tracer(frame, event, arg):
        steps[0] += 1
        if steps[0] > job.get('step_budget', STEP_BUDGET):
            raise Budget()
        return tracer

    def on_alarm(signum, frm):
        raise Budget()

    out = {}
    signal.signal(signal.SIGALRM, on_alarm)
    signal.alarm(job.get('wall_s', WALL_S))
    t0 = time.time()
    try:
        if job.get('count_steps', True):
            sys.settrace(tracer)
        try:
            res = fn(*args, **kwargs)
        finally:
            sys.settrace(None)
            signal.alarm(0)
        out = {'outcome': 'return', 'value': values.encode(res)}
        if job.get('report_args'):
            out['args_after'] = [values.encode(a) for a in args]
    except Budget:
        out = {'outcome': 'budget', 'steps': steps[0], 'seconds': round(time.time() - t0, 2)}
    except BaseException as exc:  # the real code's exception
        sys.settrace(None)
        signal.alarm(0)
        out = {'outcome': 'raise', 'exc': '%s.%s' % (type(exc).__module__, type(exc).__qualname__),
               'mro': ['%s.%s' % (k.__module__, k.__qualname__) for k in type(exc).__mro__],
               'message': str(exc)[:200]}
    finally:
        for mod, var, old in saved:
            setattr(mod, var, old)
        if job.get('tz'):
            if saved_tz is None:
                os.environ.pop('TZ', None)
            else:
                os.environ['TZ'] = saved_tz
            time.tzset()
    out['steps'] = steps[0]
    return out


def run_safely(job):
    try:
        return run_one(job)
    except Exception as exc:  # harness failure, not the code's
        return {'outcome': 'harness-error', 'error': repr(exc)}


def run_isolated(job):
    """In a forked child: the package is imported, but no call of this session has run in it (a 'fresh interpreter'
    as far as the library's own state goes).  job['sequence']: several calls in the same child."""
    r, w = os.pipe()
    pid = os.fork()
    if pid == 0:
        os.close(r)
        try:
            if 'sequence' in job:
                out = {'outcome': 'sequence', 'results': [run_safely(j) for j in job['sequence']]}
            else:
                out = run_safely(job)
            data = json.dumps(out).encode()
        except BaseException as exc:
            data = json.dumps({'outcome': 'harness-error', 'error': repr(exc)}).encode()
        with os.fdopen(w, 'wb') as fh:
            fh.write(data)
        os._exit(0)
    os.close(w)
    with os.fdopen(r, 'rb') as fh:
        data = fh.read()
    os.waitpid(pid, 0)
    try:
        return json.loads(data.decode())
    except ValueError:
        return {'outcome': 'runner-died', 'stderr': 'isolated child gave no result'}


def apply_setup():
    """Interpreter-wide settings a session variant runs under (PAMQP_VERIF_SETUP, JSON)."""
    setup = json.loads(os.environ.get('PAMQP_VERIF_SETUP') or '{}')
    if setup.get('logging') == 'DEBUG':
        import logging
        import io
        logging.basicConfig(level=logging.DEBUG, stream=io.StringIO())
        logging.getLogger('pamqp').setLevel(logging.DEBUG)
    elif setup.get('logging') == 'disabled':
        import logging
        logging.disable(logging.CRITICAL)
    if setup.get('decimal_prec'):
        import decimal
        decimal.getcontext().prec = int(setup['decimal_prec'])
    if setup.get('warnings') == 'error':
        import warnings
        warnings.simplefilter('error')


def main():
    apply_setup()
    for line in sys.stdin:
        line = line.strip()
        if not line:
            continue
        job = json.loads(line)
        if job.get('isolate'):
            out = run_isolated(job)
        else:
            out = run_safely(job)
        sys.stdout.write(json.dumps(out) + '\n')
        sys.stdout.flush()


if __name__ == '__main__':
    main()
