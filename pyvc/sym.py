"""pyvc.sym -- symbolic values, path state, ropes, struct / utf-8 / bit models.

Everything the solver sees is QF_UFLIA: integers, Booleans and a handful of
uninterpreted sorts (Bytes, Str, ...) with uninterpreted functions.  All
*structure* (byte sequences, tuples, objects, lists) lives on the Python side:
a byte string is a rope of segments, slicing is resolved by the executor with
arithmetic side queries, and only integer facts reach the solver.
"""
import itertools
import struct as _struct

import z3

# ---------------------------------------------------------------- sorts / UFs
BytesS = z3.DeclareSort('Bytes')
StrS = z3.DeclareSort('Str')
FloatS = z3.DeclareSort('Float')
ObjS = z3.DeclareSort('Obj')  # opaque ghost values (field values, lists, ...)

blen = z3.Function('blen', BytesS, z3.IntSort())
utf8 = z3.Function('utf8', StrS, BytesS)
nchars = z3.Function('nchars', StrS, z3.IntSort())
encodable = z3.Function('encodable', StrS, z3.BoolSort())
utf8_valid = z3.Function('utf8_valid', BytesS, z3.BoolSort())
utf8_dec = z3.Function('utf8_dec', BytesS, StrS)
str_prefix = z3.Function('str_prefix', StrS, z3.IntSort(), StrS)
EMPTY_STR = z3.Const('str_empty', StrS)
EMPTY_BYTES = z3.Const('bytes_empty', BytesS)


class EngineError(Exception):
    """The checker itself malfunctioned (exit 3, never a violation)."""


class OutOfSubset(Exception):
    """The code uses something the executor does not model: undecided."""


class Infeasible(Exception):
    """The current path condition became unsatisfiable."""


class Raised(Exception):
    """A Python exception raised by the program under analysis."""

    def __init__(self, cls, args=(), site=None):
        Exception.__init__(self, cls.__name__)
        self.cls = cls
        self.eargs = args
        self.site = site


# ---------------------------------------------------------------- value classes
class SInt:
    """A Python int (never a bool) whose value is the z3 Int term ``t``."""
    __slots__ = ('t',)

    def __init__(self, t):
        self.t = t

    def __repr__(self):
        return 'SInt(%s)' % self.t


class SBool:
    __slots__ = ('t',)

    def __init__(self, t):
        self.t = t

    def __repr__(self):
        return 'SBool(%s)' % self.t


class Chunk:
    """An opaque run of bytes: a z3 term of sort Bytes; length blen(term)."""
    __slots__ = ('t',)

    def __init__(self, t):
        self.t = t

    @property
    def len(self):
        return blen(self.t)

    def key(self):
        return self.t.get_id()

    def __repr__(self):
        return 'Chunk(%s)' % self.t


class SBytes:
    """bytes / bytearray as a rope.  Segments: python int (concrete byte),
    z3 Int term (symbolic byte, constrained to 0..255 when created) or Chunk."""
    __slots__ = ('segs', 'mutable')

    def __init__(self, segs, mutable=False):
        self.segs = list(segs)
        self.mutable = mutable

    def __repr__(self):
        return 'SBytes(%r%s)' % (self.segs, ', bytearray' if self.mutable else '')


class SStr:
    __slots__ = ('t',)

    def __init__(self, t):
        self.t = t

    def __repr__(self):
        return 'SStr(%s)' % self.t


class SFloat:
    __slots__ = ('t',)

    def __init__(self, t):
        self.t = t


class SOpaque:
    """A value of a Python type the executor only passes around (kind names
    the type class: 'decimal', 'datetime_naive', 'datetime_aware',
    'struct_time', 'dict', 'list', 'tuple', 'foreign', 'fv' ...)."""
    __slots__ = ('kind', 't', 'info')

    def __init__(self, kind, t, info=None):
        self.kind = kind
        self.t = t
        self.info = info or {}

    def __repr__(self):
        return 'SOpaque(%s, %s)' % (self.kind, self.t)


class SObj:
    """A heap object: instance of the *real* class ``cls`` with symbolic
    attributes.  provenance: 'param' | 'fresh' | 'module'."""
    _ids = itertools.count()

    def __init__(self, cls, attrs=None, provenance='fresh', label=None):
        self.cls = cls
        self.attrs = dict(attrs or {})
        self.provenance = provenance
        self.label = label or '%s#%d' % (cls.__name__, next(SObj._ids))

    def __repr__(self):
        return 'SObj(%s)' % self.label


class SCond:
    """cond ? a : b for arbitrary typed values (e.g. an optional attribute:
    present ? value : None).  a / b may be zero-argument thunks, evaluated
    only once the condition is known on the path."""
    __slots__ = ('cond', '_a', '_b')

    def __init__(self, cond, a, b):
        self.cond = cond
        self._a = a
        self._b = b

    @property
    def a(self):       # thunks are re-evaluated on every access (their facts live in the current scope only)
        return self._a() if callable(self._a) else self._a

    @property
    def b(self):
        return self._b() if callable(self._b) else self._b

    def __repr__(self):
        return 'SCond(%s ? .. : ..)' % (self.cond,)


class SExc:
    """An exception instance bound by ``except X as name``."""

    def __init__(self, cls, args=()):
        self.cls = cls
        self.args = args


SYMBOLIC_TYPES = (SInt, SBool, SBytes, SStr, SFloat, SOpaque, SObj, SExc, SCond)


def is_symbolic(v, _depth=0):
    if isinstance(v, SYMBOLIC_TYPES):
        return True
    if _depth < 4 and isinstance(v, (list, tuple)):
        return any(is_symbolic(x, _depth + 1) for x in v)
    if _depth < 4 and isinstance(v, dict):
        return any(is_symbolic(x, _depth + 1) for x in v.values())
    return False


def I(x):
    """int-like -> z3 Int term."""
    if isinstance(x, SInt):
        return x.t
    if isinstance(x, bool):
        return z3.IntVal(int(x))
    if isinstance(x, int):
        return z3.IntVal(x)
    if isinstance(x, SBool):
        return z3.If(x.t, z3.IntVal(1), z3.IntVal(0))
    if z3.is_expr(x):
        return x
    raise EngineError('I(): not an int: %r' % (x,))


def B(x):
    """bool-like -> z3 Bool term."""
    if isinstance(x, SBool):
        return x.t
    if isinstance(x, bool):
        return z3.BoolVal(x)
    if z3.is_expr(x):
        return x
    raise EngineError('B(): not a bool: %r' % (x,))


def mk_int(t):
    """Wrap, folding constants back to python ints."""
    if isinstance(t, int):
        return t
    t = z3.simplify(t)
    if z3.is_int_value(t):
        return t.as_long()
    return SInt(t)


def mk_bool(t):
    if isinstance(t, bool):
        return t
    t = z3.simplify(t)
    if z3.is_true(t):
        return True
    if z3.is_false(t):
        return False
    return SBool(t)


def is_intlike(v):
    return isinstance(v, (int, SInt, SBool))  # bool is an int in Python


def is_boollike(v):
    return isinstance(v, (bool, SBool))


def is_byteslike(v):
    return isinstance(v, (bytes, bytearray, SBytes))


def is_strlike(v):
    return isinstance(v, (str, SStr))


# ---------------------------------------------------------------- path state
class Decision:
    __slots__ = ('value', 'forced', 'tag')

    def __init__(self, value, forced, tag):
        self.value = value
        self.forced = forced
        self.tag = tag


class State:
    """One execution path.  Re-created for every path; a path is identified by
    its decision prefix (list of booleans), replayed deterministically."""

    def __init__(self, prefix=(), timeout_ms=10000):
        self.solver = z3.Solver()
        self.solver.set('timeout', timeout_ms)
        self.pc = []              # list of z3 Bool terms (path condition)
        self.prefix = list(prefix)
        self.decisions = []       # Decision objects taken on this run
        self.pending = []         # alternative prefixes discovered on this run
        self.counter = itertools.count()
        self.refine = {}          # chunk id -> list of segments (its expansion)
        self.refined_chunks = {}  # chunk id -> Chunk
        self.cond_defs = {}       # chunk id -> (cond term, thunk -> segs when true)  [empty when false]
        self.cond_seen = {}       # chunk id -> len(pc) at the last undetermined check
        self.decided = {}         # id of a decided condition term -> its value on this path
        self.bit_origin = {}      # id of an integer term -> (bits LSB first, sign Bool): its two's complement reading
        self.fresh_ids = set()    # ids of python containers allocated by the program during this run
        self.keep = []            # keep z3 terms alive (ids are reused otherwise)
        self.pack_cache = {}
        self.str_lits = {}
        self.obligations = []     # (name, goal term, info) proved under current pc snapshot
        self.global_over = {}     # (module name, var) -> symbolic value
        self.global_writes = []   # (module name, var, value)
        self.writes = []          # (object label, attr/op) effect log
        self.steps = 0
        self.n_queries = 0
        self.notes = []
        self.facts_done = set()

    # -- fresh names
    def fresh(self, base, sort=None):
        name = '%s!%d' % (base, next(self.counter))
        if sort is None:
            return z3.Int(name)
        return z3.Const(name, sort)

    def allocated(self, obj):
        """Record a container the program under analysis created itself (freshness / frame conditions, C16)."""
        self.fresh_ids.add(id(obj))
        self.keep.append(obj)
        return obj

    def fresh_int(self, base='i'):
        return z3.Int('%s!%d' % (base, next(self.counter)))

    def fresh_bool(self, base='b'):
        return z3.Bool('%s!%d' % (base, next(self.counter)))

    # -- assumptions
    def assume(self, t):
        if isinstance(t, bool):
            if not t:
                raise Infeasible()
            return
        self.pc.append(t)
        self.solver.add(t)

    def check(self, *extra):
        self.n_queries += 1
        r = self.solver.check(*extra)
        return r

    def can(self, t):
        """Is pc /\ t satisfiable?  unknown counts as yes (over-approximate)."""
        if isinstance(t, bool):
            return t
        return self.check(t) != z3.unsat

    def must(self, t):
        """Is t valid under pc?  unknown counts as no."""
        if isinstance(t, bool):
            return t
        return self.check(z3.Not(t)) == z3.unsat

    # -- branching under the decision trace
    def branch(self, cond, tag=''):
        """Decide a Boolean and record it.  Returns a python bool."""
        if isinstance(cond, SBool):
            cond = cond.t
        if isinstance(cond, bool):
            return cond
        cond = z3.simplify(cond)
        if z3.is_true(cond):
            return True
        if z3.is_false(cond):
            return False
        idx = len(self.decisions)
        if idx < len(self.prefix):
            val = self.prefix[idx]
            forced = None
        else:
            can_t = self.can(cond)
            can_f = self.can(z3.Not(cond))
            if can_t and can_f:
                val, forced = True, False
                self.pending.append([d.value for d in self.decisions] + [False])
            elif can_t:
                val, forced = True, True
            elif can_f:
                val, forced = False, True
            else:
                raise Infeasible()
        self.decisions.append(Decision(val, forced, tag))
        self.assume(cond if val else z3.Not(cond))
        self.decided[cond.get_id()] = val
        self.keep.append(cond)
        return val

    def truth(self, v, tag='truth'):
        """Python truthiness of a value, branching if symbolic."""
        if isinstance(v, SBool):
            return self.branch(v.t, tag)
        if isinstance(v, SInt):
            return self.branch(v.t != 0, tag)
        if isinstance(v, SBytes):
            return self.branch(self.rope_len_term(v) > 0, tag)
        if isinstance(v, SStr):
            self.str_facts(v.t)
            return self.branch(nchars(v.t) > 0, tag)
        if isinstance(v, SObj):
            ln = getattr(v.cls, '__len__', None)
            if ln is not None:
                hook = getattr(self, 'len_hook', None)
                if hook is None:
                    raise OutOfSubset('truthiness of object with __len__')
                return self.truth(hook(v), tag)      # bool(obj) is len(obj) != 0
            return True
        if isinstance(v, SOpaque):
            if v.kind in ('datetime_naive', 'datetime_aware', 'struct_time', 'foreign'):
                return True
            if 'truthy' in v.info:
                return self.branch(v.info['truthy'], tag)
            if v.kind == 'decimal':
                return self.branch(z3.Function('decimal_nonzero', ObjS, z3.BoolSort())(v.t), tag)
            raise OutOfSubset('truthiness of opaque %s' % v.kind)
        if isinstance(v, SFloat):
            return self.branch(z3.Function('float_nonzero', FloatS, z3.BoolSort())(v.t), tag)
        return bool(v)

    # -- obligations proved at the point they arise (callee preconditions etc.)
    def oblige(self, name, goal, info=None):
        self.obligations.append((name, list(self.pc), goal, info or {}))

    # ------------------------------------------------------------ ropes
    def new_chunk(self, base='chunk', term=None):
        t = term if term is not None else self.fresh(base, BytesS)
        self.keep.append(t)
        key = ('blen', t.get_id())
        if key not in self.facts_done:
            self.facts_done.add(key)
            self.assume(blen(t) >= 0)
        return Chunk(t)

    def new_byte(self, base='byte'):
        b = self.fresh_int(base)
        self.assume(z3.And(b >= 0, b <= 255))
        return b

    def to_rope(self, v):
        if isinstance(v, SBytes):
            return v
        if isinstance(v, (bytes, bytearray)):
            return SBytes(list(v), isinstance(v, bytearray))
        raise EngineError('not bytes: %r' % (v,))

    def expand(self, segs):
        """Replace refined chunks by their expansions (recursively); conditional
        chunks are resolved as soon as the path decides their condition."""
        out = []
        stack = list(reversed(segs))
        while stack:
            s = stack.pop()
            if isinstance(s, Chunk) and s.key() not in self.refine and s.key() in self.cond_defs:
                self.try_resolve(s)
            if isinstance(s, Chunk) and s.key() in self.refine:
                stack.extend(reversed(self.refine[s.key()]))
            else:
                out.append(s)
        return out

    # -- conditional chunks: present ? <definition> : empty
    def cond_chunk(self, term, cond, thunk, length=None):
        """The chunk `term` is the octets thunk() when cond holds and empty otherwise.
        length: the length of thunk() as a term (stated up front, without evaluating the definition)."""
        c = self.new_chunk(term=term)
        if c.key() not in self.cond_defs and c.key() not in self.refine:
            if isinstance(cond, bool):
                self.refine_chunk(c, list(self.to_rope(thunk()).segs) if cond else [])
            else:
                self.cond_defs[c.key()] = (cond, thunk)
                self.assume(z3.Implies(z3.Not(cond), c.len == 0))
                if length is not None:
                    self.assume(z3.Implies(cond, c.len == I(length)))
        return c

    def known(self, cond):
        """Truth of cond from the decisions taken on this path, without the solver (None: unknown)."""
        cond = z3.simplify(cond)
        if z3.is_true(cond):
            return True
        if z3.is_false(cond):
            return False
        v = self.decided.get(cond.get_id())
        if v is not None:
            return v
        if z3.is_not(cond):
            v = self.known(cond.arg(0))
            return None if v is None else not v
        if z3.is_and(cond):
            vals = [self.known(ch) for ch in cond.children()]
            if any(x is False for x in vals):
                return False
            if all(x is True for x in vals):
                return True
        if z3.is_or(cond):
            vals = [self.known(ch) for ch in cond.children()]
            if any(x is True for x in vals):
                return True
            if all(x is False for x in vals):
                return False
        return None

    def try_resolve(self, chunk, force=False, solver=False):
        """Refine a conditional chunk if its condition is decided.  Default: only from
        the decisions recorded on the path; solver=True: ask the solver; force=True: branch."""
        k = chunk.key()
        if k in self.refine or k not in self.cond_defs:
            return k in self.refine
        cond, thunk = self.cond_defs[k]
        val = self.known(cond)
        if val is None and (solver or force):
            if self.cond_seen.get(k) != len(self.pc) or force:
                if self.must(cond):
                    val = True
                elif self.must(z3.Not(cond)):
                    val = False
                else:
                    self.cond_seen[k] = len(self.pc)
        if val is None and force:
            val = self.branch(cond, 'resolve-conditional-chunk')
        if val is None:
            return False
        self.refine_chunk(chunk, list(self.to_rope(thunk()).segs) if val else [])
        return True

    def resolve_all(self, segs):
        """expand, asking the solver about still undetermined conditional chunks."""
        for s_ in self.expand(segs):
            if isinstance(s_, Chunk) and s_.key() in self.cond_defs and s_.key() not in self.refine:
                self.try_resolve(s_, solver=True)
        return self.expand(segs)

    def seg_len(self, s):
        return s.len if isinstance(s, Chunk) else 1

    def rope_len_term(self, v):
        v = self.to_rope(v)
        n = 0
        terms = []
        for s in self.expand(v.segs):
            if isinstance(s, Chunk):
                terms.append(s.len)
            else:
                n += 1
        if not terms:
            return z3.IntVal(n)
        return z3.Sum([z3.IntVal(n)] + terms) if n else (terms[0] if len(terms) == 1 else z3.Sum(terms))

    def rope_len(self, v):
        if isinstance(v, (bytes, bytearray)):
            return len(v)
        return mk_int(self.rope_len_term(v))

    def refine_chunk(self, chunk, segs):
        """Record chunk == concatenation of segs (lengths are tied together)."""
        total = 0
        terms = []
        for s in segs:
            if isinstance(s, Chunk):
                terms.append(s.len)
            else:
                total += 1
        self.refine[chunk.key()] = list(segs)
        self.refined_chunks[chunk.key()] = chunk
        self.keep.append(chunk.t)
        self.assume(chunk.len == z3.Sum([z3.IntVal(total)] + terms))
        # the same octet sequence is later *named* by this chunk again (see name_rope)
        flat = self.expand(list(segs))
        key = ('name', tuple(('c', x.key()) if isinstance(x, Chunk) else ('i', x) if isinstance(x, int)
                             else ('b', x.get_id()) for x in flat))
        self.pack_cache.setdefault(key, chunk)

    @staticmethod
    def _segkey(segs):
        return ('name', tuple(('c', s.key()) if isinstance(s, Chunk) else ('i', s) if isinstance(s, int)
                              else ('b', s.get_id()) for s in segs))

    def name_rope(self, segs, base='named'):
        """A Bytes term denoting the concatenation of segs.  Interned: the same
        segment sequence always gets the same name (so UF congruence applies)."""
        segs = self.expand(segs)
        segs = [s for s in segs if not (isinstance(s, Chunk) and self.must(s.len == 0))]
        if not segs:
            key = ('name', ())
        else:
            key = ('name', tuple(('c', s.key()) if isinstance(s, Chunk) else ('i', s) if isinstance(s, int)
                                 else ('b', s.get_id()) for s in segs))
        if key in self.pack_cache:
            return self.pack_cache[key]
        if len(segs) == 1 and isinstance(segs[0], Chunk):
            return segs[0]
        # an older name whose (since refined) expansion is this very sequence
        for ck, chunk in list(self.refined_chunks.items()):
            if ck in self.refine:
                other = [x for x in self.expand(self.refine[ck])
                         if not (isinstance(x, Chunk) and self.must(x.len == 0))]
                if self._segkey(other) == key:
                    self.pack_cache[key] = chunk
                    return chunk
        c = self.new_chunk(base)
        self.refine_chunk(c, segs)
        self.pack_cache[key] = c
        return c

    def split_first_bytes(self, chunk, k):
        """chunk (length >= k known) -> k fresh byte atoms + remainder chunk."""
        bs = [self.new_byte('b') for _ in range(k)]
        rest = self.new_chunk('rest')
        self.refine_chunk(chunk, bs + [rest])
        return bs, rest

    def split_at(self, segs, pos, tag='split', prefer='left'):
        """Split an (expanded) segment list at byte position pos (int or z3
        term, already clamped to 0..len).  Returns (left, right).  With
        conditional chunks in the rope, a boundary that is *provably* the position
        is used as it is (prefer: which one if several coincide), so that the
        chunks are not decided just to locate the cut."""
        segs = self.expand(segs)
        if isinstance(pos, SInt):
            pos = pos.t
        if any(isinstance(x, Chunk) and x.key() in self.cond_defs and x.key() not in self.refine for x in segs):
            offs = [z3.IntVal(0)]
            for x in segs:
                offs.append(z3.simplify(offs[-1] + (x.len if isinstance(x, Chunk) else 1)))
            pt = I(pos)
            order = range(len(offs)) if prefer == 'left' else range(len(offs) - 1, -1, -1)
            for i in order:
                if self.must(pt == offs[i]):
                    return list(segs[:i]), list(segs[i:])
        if isinstance(pos, int):
            # fast path: walk concrete-length prefix
            left = []
            i = 0
            off = 0
            while i < len(segs) and off < pos and not isinstance(segs[i], Chunk):
                left.append(segs[i])
                off += 1
                i += 1
            if off == pos:
                # zero-length chunks at the boundary stay on the right
                return left, segs[i:]
            pos_t = z3.IntVal(pos)
            start = (left, i, z3.IntVal(off))
        else:
            pos_t = pos
            start = ([], 0, z3.IntVal(0))
        left, i, off = start
        left = list(left)
        while i < len(segs):
            s = segs[i]
            if self.branch(pos_t == off, tag + ':at-boundary'):
                return left, segs[i:]
            if isinstance(s, Chunk):
                if self.branch(pos_t < off + s.len, tag + ':inside-chunk'):
                    if s.key() in self.cond_defs and s.key() not in self.refine:
                        self.try_resolve(s, force=True)
                        segs = segs[:i] + self.expand([s]) + segs[i + 1:]
                        continue
                    k = z3.simplify(pos_t - off)
                    if z3.is_int_value(k) and k.as_long() <= 64:
                        bs, rest = self.split_first_bytes(s, k.as_long())
                        return left + bs, [rest] + segs[i + 1:]
                    c1 = self.new_chunk('pre')
                    c2 = self.new_chunk('suf')
                    self.refine_chunk(s, [c1, c2])
                    self.assume(c1.len == k)
                    return left + [c1], [c2] + segs[i + 1:]
                off = z3.simplify(off + s.len)
            else:
                off = z3.simplify(off + 1)
            left.append(s)
            i += 1
        # pos == total length (clamped), nothing on the right
        self.assume(pos_t == off)
        return left, []

    def clamp_index(self, idx, length, tag):
        """Python slice-bound normalisation: returns an int/z3 term in 0..len."""
        if idx is None:
            return None
        if isinstance(idx, int) and isinstance(length, int):
            if idx < 0:
                idx += length
                if idx < 0:
                    idx = 0
            return min(idx, length)
        it, lt = I(idx), I(length)
        if isinstance(idx, int) and idx >= 0:
            neg = False
        else:
            neg = self.branch(it < 0, tag + ':neg')
        if neg:
            it = it + lt
            if self.branch(it < 0, tag + ':neg2'):
                return 0
        if self.branch(it > lt, tag + ':clamp'):
            return length
        return mk_int(it)

    def rope_slice(self, v, lo, hi, tag='slice'):
        rope = self.to_rope(v)
        segs = self.expand(rope.segs)
        length = self.rope_len(SBytes(segs))
        lo = 0 if lo is None else self.clamp_index(lo, length, tag + ':lo')
        hi = length if hi is None else self.clamp_index(hi, length, tag + ':hi')
        if not (isinstance(lo, int) and lo == 0):
            # empty slice when hi < lo (hi == lo is handled structurally: zero-length chunks at the cut are kept)
            if not (isinstance(hi, int) and isinstance(lo, int)):
                if self.branch(I(hi) < I(lo), tag + ':empty'):
                    return self.mk_bytes([], rope.mutable)
            elif hi < lo:
                return self.mk_bytes([], rope.mutable)
        if hi is length or (isinstance(hi, int) and isinstance(length, int) and hi == length):
            mid = segs
        else:
            mid, _ = self.split_at(segs, hi, tag + ':hi', prefer='right')
        if isinstance(lo, int) and lo == 0:
            res = mid
        else:
            _, res = self.split_at(mid, lo, tag + ':lo')
        return self.mk_bytes(res, rope.mutable)

    def mk_bytes(self, segs, mutable=False):
        segs = self.expand(segs)
        if all(isinstance(s, int) for s in segs):
            return bytearray(segs) if mutable else bytes(segs)
        return SBytes(segs, mutable)

    def rope_index(self, v, idx, tag='index'):
        rope = self.to_rope(v)
        segs = self.expand(rope.segs)
        length = self.rope_len(SBytes(segs))
        it = I(idx)
        if not (isinstance(idx, int) and idx >= 0):
            if self.branch(it < 0, tag + ':neg'):
                it = it + I(length)
        if self.branch(z3.Or(it < 0, it >= I(length)), tag + ':range'):
            raise Raised(IndexError, ('index out of range',))
        _, right = self.split_at(segs, mk_int(it), tag, prefer='right')
        right = self.expand(right)
        # drop empty chunks in front, then take one byte
        while right:
            s = right[0]
            if isinstance(s, Chunk) and s.key() in self.cond_defs and s.key() not in self.refine:
                self.try_resolve(s, force=True)
                right = self.expand([s]) + right[1:]
                continue
            if isinstance(s, Chunk):
                if self.branch(s.len == 0, tag + ':empty-chunk'):
                    right = right[1:]
                    continue
                bs, rest = self.split_first_bytes(s, 1)
                return mk_int(bs[0]) if not isinstance(bs[0], int) else bs[0]
            return s if isinstance(s, int) else SInt(s)
        raise EngineError('rope_index fell off the end')

    def rope_concat(self, a, b):
        ra, rb = self.to_rope(a), self.to_rope(b)
        return self.mk_bytes(ra.segs + rb.segs, ra.mutable)

    def take_bytes(self, segs, k, tag='take'):
        """First k (concrete) bytes of segs as byte atoms, assuming len >= k
        has been established by the caller.  Returns (atoms, rest segs)."""
        segs = self.expand(segs)
        out = []
        i = 0
        while len(out) < k:
            if i >= len(segs):
                raise EngineError('take_bytes: rope shorter than promised')
            s = segs[i]
            if isinstance(s, Chunk) and s.key() in self.cond_defs and s.key() not in self.refine:
                self.try_resolve(s, force=True)
                segs = segs[:i] + self.expand([s]) + segs[i + 1:]
                continue
            if isinstance(s, Chunk):
                need = k - len(out)
                # how many bytes does this chunk surely have?
                if self.branch(s.len >= need, tag + ':chunk-has'):
                    bs, rest = self.split_first_bytes(s, need)
                    out.extend(bs)
                    segs = segs[:i] + [rest] + segs[i + 1:]
                    i += 0
                    return out, segs[i:]
                elif self.branch(s.len == 0, tag + ':chunk-empty'):
                    i += 1
                    continue
                else:
                    # 0 < len < need: peel one byte and continue
                    bs, rest = self.split_first_bytes(s, 1)
                    out.extend(bs)
                    segs = segs[:i] + [rest] + segs[i + 1:]
                    continue
            out.append(s)
            i += 1
        return out, segs[i:]

    # ------------------------------------------------------------ equality
    def rope_eq(self, a, b):
        """Returns (z3 Bool, exact).  exact=False: shapes did not align, the
        term is only a necessary condition (length equality)."""
        sa = self.resolve_all(self.to_rope(a).segs)
        sb = self.resolve_all(self.to_rope(b).segs)

        def same(x, y):
            if isinstance(x, Chunk) or isinstance(y, Chunk):
                return isinstance(x, Chunk) and isinstance(y, Chunk) and x.t.eq(y.t)
            if isinstance(x, int) or isinstance(y, int):
                return isinstance(x, int) and isinstance(y, int) and x == y
            return x.eq(y)
        # strip syntactically identical prefix and suffix
        while sa and sb and same(sa[0], sb[0]):
            sa, sb = sa[1:], sb[1:]
        while sa and sb and same(sa[-1], sb[-1]):
            sa, sb = sa[:-1], sb[:-1]
        if not sa or not sb:
            rest = sa or sb
            if any(not isinstance(x, Chunk) for x in rest):
                return z3.BoolVal(False), True       # one side has an extra octet
            return (z3.And([x.len == 0 for x in rest]) if rest else z3.BoolVal(True)), True
        conj = []
        i = j = 0
        exact = True
        while i < len(sa) or j < len(sb):
            x = sa[i] if i < len(sa) else None
            y = sb[j] if j < len(sb) else None
            if x is not None and y is not None:
                xc, yc = isinstance(x, Chunk), isinstance(y, Chunk)
                if not xc and not yc:
                    conj.append(I(x) == I(y))
                    i += 1
                    j += 1
                    continue
                if xc and yc:
                    if x.t.eq(y.t):
                        i += 1
                        j += 1
                        continue
                    if x.key() in self.cond_defs and y.key() in self.cond_defs and \
                            x.key() not in self.refine and y.key() not in self.refine:
                        # two conditional chunks: same condition, and equal definitions under it
                        (c1, th1), (c2, th2) = self.cond_defs[x.key()], self.cond_defs[y.key()]
                        if self.must(c1 == c2) and self._defs_equal_under(c1, th1, th2):
                            i += 1
                            j += 1
                            continue
                    if self.must(x.len == y.len):
                        conj.append(x.t == y.t)
                        i += 1
                        j += 1
                        continue
            # misaligned: try dropping provably empty chunks
            if isinstance(x, Chunk) and self.must(x.len == 0):
                i += 1
                continue
            if isinstance(y, Chunk) and self.must(y.len == 0):
                j += 1
                continue
            exact = False
            break
        if not exact:
            la = self.rope_len_term(SBytes(sa))
            lb = self.rope_len_term(SBytes(sb))
            return z3.And(conj + [la == lb]), False
        return (z3.And(conj) if conj else z3.BoolVal(True)), True

    def _defs_equal_under(self, cond, th1, th2):
        if not self.can(cond):
            return True
        from .contract import scope
        with scope(self):
            self.assume(cond)
            t, exact = self.rope_eq(th1(), th2())
            return exact and self.must(t)

    # ------------------------------------------------------------ strings
    def str_facts(self, t):
        key = ('str', t.get_id())
        if key in self.facts_done:
            return
        self.facts_done.add(key)
        self.keep.append(t)
        u = utf8(t)
        self.assume(z3.And(nchars(t) >= 0, blen(u) >= nchars(t), blen(u) <= 4 * nchars(t),
                           z3.Implies(encodable(t), z3.And(utf8_valid(u), utf8_dec(u) == t)),
                           (nchars(t) == 0) == (t == EMPTY_STR)))
        if not t.eq(EMPTY_STR):
            self.str_facts(EMPTY_STR)

    def new_str(self, base='s'):
        t = self.fresh(base, StrS)
        self.str_facts(t)
        return SStr(t)

    def str_term(self, v):
        """python str or SStr -> z3 Str term (literals are interned with their
        length facts and pairwise distinctness)."""
        if isinstance(v, SStr):
            self.str_facts(v.t)
            return v.t
        if isinstance(v, str):
            if v == '':
                self.str_facts(EMPTY_STR)
                self.assume(encodable(EMPTY_STR))
                return EMPTY_STR
            if v in self.str_lits:
                return self.str_lits[v]
            t = z3.Const('lit_%s' % v.encode('utf-8', 'surrogatepass').hex(), StrS)
            for other, ot in self.str_lits.items():
                self.assume(t != ot)
            self.str_lits[v] = t
            self.str_facts(t)
            for hook in getattr(self, 'literal_hooks', ()):
                hook(self, v, t)
            try:
                enc = v.encode('utf-8')
                self.assume(z3.And(nchars(t) == len(v), encodable(t), blen(utf8(t)) == len(enc)))
                self.refine[utf8(t).get_id()] = list(enc)
                self.keep.append(utf8(t))
            except UnicodeEncodeError:
                self.assume(z3.And(nchars(t) == len(v), z3.Not(encodable(t))))
            return t
        raise EngineError('str_term: %r' % (v,))

    def str_encode(self, v):
        if isinstance(v, str):
            return v.encode('utf-8')
        t = self.str_term(v)
        if not self.branch(encodable(t), 'str.encode:encodable'):
            raise Raised(UnicodeEncodeError, ())
        return SBytes([self.new_chunk(term=utf8(t))])

    def bytes_decode(self, v):
        if isinstance(v, (bytes, bytearray)):
            try:
                return v.decode('utf-8')
            except UnicodeDecodeError:
                raise Raised(UnicodeDecodeError, ())
        segs = self.expand(v.segs)
        segs = [s for s in segs if not (isinstance(s, Chunk) and self.must(s.len == 0))]
        if not segs:
            return ''
        c = self.name_rope(segs)
        if not self.branch(utf8_valid(c.t), 'bytes.decode:valid'):
            raise Raised(UnicodeDecodeError, ())
        s = utf8_dec(c.t)
        self.str_facts(s)
        self.assume(z3.And(encodable(s), utf8(s) == c.t))
        return SStr(s)

    def str_eq(self, a, b):
        if isinstance(a, str) and isinstance(b, str):
            return a == b
        return mk_bool(self.str_term(a) == self.str_term(b))

    def str_len(self, v):
        if isinstance(v, str):
            return len(v)
        self.str_facts(v.t)
        return SInt(nchars(v.t))

    def str_slice_prefix(self, v, k):
        """v[0:k] for concrete k >= 0."""
        if isinstance(v, str):
            return v[0:k]
        t = self.str_term(v)
        if self.branch(nchars(t) <= k, 'str-slice:short'):
            return v
        p = str_prefix(t, z3.IntVal(k))
        self.str_facts(p)
        self.assume(z3.And(nchars(p) == k, blen(utf8(p)) <= blen(utf8(t)),
                           z3.Implies(encodable(t), encodable(p))))
        return SStr(p)

    # ------------------------------------------------------------ struct model
    def pack_uint(self, n, width, tag='pack'):
        """Big-endian unsigned encoding of int term n (range established by the
        caller): returns list of byte atoms."""
        if isinstance(n, int):
            return list(n.to_bytes(width, 'big'))
        key = ('u', width, n.get_id())
        if key in self.pack_cache:
            return self.pack_cache[key]
        self.keep.append(n)
        if width == 1:
            bs = [n]
        else:
            bs = [self.new_byte('p') for _ in range(width)]
            self.assume(n == z3.Sum([bs[i] * (256 ** (width - 1 - i)) for i in range(width)]))
        self.pack_cache[key] = bs
        return bs

    def pack_sint(self, n, width, tag='pack'):
        if isinstance(n, int):
            return list(n.to_bytes(width, 'big', signed=True))
        key = ('s', width, n.get_id())
        if key in self.pack_cache:
            return self.pack_cache[key]
        self.keep.append(n)
        bs = [self.new_byte('p') for _ in range(width)]
        u = z3.Sum([bs[i] * (256 ** (width - 1 - i)) for i in range(width)]) if width > 1 else bs[0]
        self.assume(u == z3.If(n < 0, n + 256 ** width, n))
        self.pack_cache[key] = bs
        return bs

    def from_bytes(self, bs, signed):
        """Big-endian reading of byte atoms, remembering the bits of the value
        (bit operations on it are then syntactic: no new decomposition, no range queries)."""
        bs = list(bs)
        v = self.unpack_sint(bs) if signed else self.unpack_uint(bs)
        if isinstance(v, SInt):
            bits = []
            for a in reversed(bs):                   # last octet is least significant
                bits.extend(self.bits_of(a, 8) if not isinstance(a, int)
                            else [z3.BoolVal(bool((a >> k) & 1)) for k in range(8)])
            if signed:
                self.set_bits(v, bits[:-1], bits[-1])
            else:
                self.set_bits(v, bits, z3.BoolVal(False))
        return v

    def set_bits(self, v, bits, sign):
        """Record value(v) == sum_k 2^k bits[k] - 2^len(bits) * sign (two's complement)."""
        if isinstance(v, SInt):
            self.bit_origin[v.t.get_id()] = (list(bits), sign)
            self.keep.append(v.t)
        return v

    def get_bits(self, v):
        if isinstance(v, SInt):
            return self.bit_origin.get(v.t.get_id())
        if isinstance(v, SBool):
            return [v.t], z3.BoolVal(False)
        if z3.is_expr(v):
            return self.bit_origin.get(v.get_id())
        return None

    @staticmethod
    def unpack_uint(bs):
        w = len(bs)
        if all(isinstance(b, int) for b in bs):
            return int.from_bytes(bytes(bs), 'big')
        if w == 1:
            return mk_int(I(bs[0]))
        return mk_int(z3.Sum([I(bs[i]) * (256 ** (w - 1 - i)) for i in range(w)]))

    @staticmethod
    def unpack_sint(bs):
        w = len(bs)
        if all(isinstance(b, int) for b in bs):
            return int.from_bytes(bytes(bs), 'big', signed=True)
        u = z3.Sum([I(bs[i]) * (256 ** (w - 1 - i)) for i in range(w)]) if w > 1 else I(bs[0])
        return mk_int(z3.If(I(bs[0]) >= 128, u - 256 ** w, u))

    # ------------------------------------------------------------ bits
    def bits_of(self, x, width, tag='bits'):
        """Relational decomposition of 0 <= x < 2^width (caller establishes the
        range): list of z3 Bools, LSB first."""
        if isinstance(x, int):
            return [z3.BoolVal(bool((x >> k) & 1)) for k in range(width)]
        t = I(x)
        key = ('bits', width, t.get_id())
        if key in self.pack_cache:
            return self.pack_cache[key]
        self.keep.append(t)
        bits = [self.fresh_bool('bit') for _ in range(width)]
        self.assume(t == z3.Sum([z3.If(bits[k], 2 ** k, 0) for k in range(width)]))
        self.pack_cache[key] = bits
        return bits

    def byte_from_bits(self, bits, base='octet'):
        """An octet defined by its eight bits (LSB first; python bools or z3 Bools)."""
        bits = [z3.BoolVal(b) if isinstance(b, bool) else b for b in bits]
        assert len(bits) == 8
        if all(z3.is_true(b) or z3.is_false(b) for b in bits):
            return sum((1 << k) for k, b in enumerate(bits) if z3.is_true(b))
        a = self.fresh_int(base)
        self.assume(z3.And(a >= 0, a <= 255, a == z3.Sum([z3.If(bits[k], 2 ** k, 0) for k in range(8)])))
        self.pack_cache[('bits', 8, a.get_id())] = bits
        self.keep.append(a)
        return a

    def width_for(self, x, tag='width'):
        """Smallest of 8/16/32/64 with 0 <= x < 2^w provable; None if x may be
        negative or unbounded."""
        if isinstance(x, bool):
            return 8
        if isinstance(x, int):
            if x < 0:
                return None
            for w in (8, 16, 32, 64, 128):
                if x < 2 ** w:
                    return w
            return None
        t = I(x)
        if not self.must(t >= 0):
            return None
        for w in (8, 16, 32, 64, 128):
            if self.must(t < 2 ** w):
                return w
        return None


FORMAT_CODES = {
    'B': (1, False), 'b': (1, True), 'H': (2, False), 'h': (2, True),
    'I': (4, False), 'i': (4, True), 'L': (4, False), 'l': (4, True),
    'Q': (8, False), 'q': (8, True), 'x': (1, None), 'f': (4, 'f'), 'd': (8, 'd'),
}


def parse_format(fmt):
    """struct format -> list of (code, size, signed|None|'f'|'d').  Only
    big-endian / single-byte native formats are modelled."""
    if isinstance(fmt, bytes):
        fmt = fmt.decode('ascii')
    order = ''
    if fmt and fmt[0] in '<>!=@':
        order, body = fmt[0], fmt[1:]
    else:
        body = fmt
    items = []
    count = ''
    for ch in body:
        if ch.isdigit():
            count += ch
            continue
        if ch.isspace():
            continue
        if ch not in FORMAT_CODES:
            raise OutOfSubset('struct format code %r' % ch)
        size, signed = FORMAT_CODES[ch]
        for _ in range(int(count) if count else 1):
            items.append((ch, size, signed))
        count = ''
    if order in ('', '@', '=', '<') and any(size > 1 for _, size, _ in items):
        raise OutOfSubset('non-big-endian multi-byte struct format %r' % fmt)
    assert _struct.calcsize(fmt) == sum(s for _, s, _ in items), fmt
    return items
