"""pyvc.interp -- symbolic interpreter over the *real* AST of /repo/pamqp.

The interpreter executes the ``ast`` node of a real ``def`` (obtained from the
file the imported module was loaded from).  Calls to pamqp functions are
resolved through the contract registry (callers see contracts, not bodies);
library calls go through the models in pyvc.lib.
"""
import ast
import builtins
import inspect
import struct as _struct
import types

import z3

from . import sym
from .loops import JoinList
from .sym import (SInt, SBool, SBytes, SStr, SFloat, SOpaque, SObj, SExc, SCond, Chunk,
                  Raised, OutOfSubset, EngineError, I, B, mk_int, mk_bool)

_SRC_CACHE = {}


def function_ast(fn):
    """The ast.FunctionDef of the real function (parsed from its file)."""
    if not isinstance(fn, types.FunctionType):
        raise OutOfSubset('%r is not a plain function (wrapped / decorated / replaced)' % (fn,))
    code = fn.__code__
    key = (code.co_filename, code.co_firstlineno, fn.__name__)
    if key in _SRC_CACHE:
        return _SRC_CACHE[key]
    fname = code.co_filename
    if fname not in _SRC_CACHE:
        with open(fname, 'r', encoding='utf-8') as fh:
            _SRC_CACHE[fname] = ast.parse(fh.read(), fname)
    tree = _SRC_CACHE[fname]
    found = None
    for node in ast.walk(tree):
        if isinstance(node, (ast.FunctionDef, ast.Lambda)):
            first = node.lineno
            if isinstance(node, ast.FunctionDef) and node.decorator_list:
                first = min(d.lineno for d in node.decorator_list)
            if first == code.co_firstlineno and (isinstance(node, ast.Lambda) or node.name == fn.__name__):
                found = node
                break
    if found is None:
        raise OutOfSubset('no source for %r' % (fn,))
    if isinstance(found, ast.FunctionDef):
        for d in found.decorator_list:
            if not (isinstance(d, ast.Name) and d.id in ('classmethod', 'staticmethod')):
                raise OutOfSubset('decorator on %s' % fn.__qualname__)
    _SRC_CACHE[key] = found
    return found


def qualname(fn):
    return '%s.%s' % (fn.__module__, fn.__qualname__)


class BoundMethod:
    __slots__ = ('fn', 'self')

    def __init__(self, fn, self_):
        self.fn = fn
        self.self = self_


class _JoinAppend:
    __slots__ = ('target',)

    def __init__(self, target):
        self.target = target


class Closure:
    """A lambda value."""
    __slots__ = ('node', 'env', 'globals')

    def __init__(self, node, env, globs):
        self.node = node
        self.env = env
        self.globals = globs


class _Return(Exception):
    def __init__(self, value):
        self.value = value


class _Break(Exception):
    pass


class _Continue(Exception):
    pass


class Frame:
    def __init__(self, fn, locs, globs):
        self.fn = fn
        self.locals = locs
        self.globals = globs
        self.global_names = set()
        self.yields = None
        self.loop_ordinal = 0


def pytype(v):
    """The concrete Python type of a (symbolic) value."""
    import datetime
    import decimal
    import time
    if isinstance(v, SInt):
        return int
    if isinstance(v, SBool):
        return bool
    if isinstance(v, SBytes):
        return bytearray if v.mutable else bytes
    if isinstance(v, SStr):
        return str
    if isinstance(v, SFloat):
        return float
    if isinstance(v, SObj):
        return v.cls
    if isinstance(v, SExc):
        return v.cls
    if isinstance(v, SOpaque):
        return {'decimal': decimal.Decimal, 'datetime_naive': datetime.datetime,
                'datetime_aware': datetime.datetime, 'struct_time': time.struct_time,
                'dict': dict, 'list': list, 'tuple': tuple, 'foreign': _Foreign, 'datetime_local': datetime.datetime,
                'tzinfo': datetime.tzinfo, 'timedelta': datetime.timedelta,
                'joinlist': list}.get(v.kind, _Foreign)
    return type(v)


class _Foreign:
    """Stands for 'some type the codec knows nothing about' (assumption A8)."""


MAX_STEPS = 200000


class Interp:
    def __init__(self, state, registry=None, inline=(), top=None, loops=None, views=None):
        self.views = views or {}
        self.st = state
        self.registry = registry
        self.inline = set(inline)
        self.top = top            # function whose body is being verified
        self.loops = loops or {}  # (qualname, ordinal) -> loop annotation
        self.depth = 0
        self.called = []          # contracts used (for evidence)
        self.auto_inlined = set()  # package functions without a contract, executed as part of the caller
        from . import lib
        self.lib = lib.Library(self)
        state.len_hook = lambda obj: self.lib.b_len(obj)

    # ------------------------------------------------------------ calls
    def call(self, f, args, kwargs=None):
        kwargs = kwargs or {}
        st = self.st
        if isinstance(f, BoundMethod):
            return self.call(f.fn, [f.self] + list(args), kwargs)
        if isinstance(f, Closure):
            return self.run_lambda(f, args)
        if isinstance(f, _JoinAppend):
            if not sym.is_byteslike(args[0]):
                raise OutOfSubset('append of a non-bytes value to an abstract list')
            f.target.segs.extend(st.to_rope(args[0]).segs)
            return None
        if self.registry is not None and not isinstance(f, types.FunctionType) and callable(f) \
                and getattr(f, '__wrapped__', None) is not None and self.registry.has(f):
            # a wrapped pamqp function (e.g. a cache decorator): callers still see the contract
            return self.call_pamqp(f, list(args), kwargs)
        if isinstance(f, types.FunctionType) and f.__module__.startswith('pamqp'):
            return self.call_pamqp(f, list(args), kwargs)
        if isinstance(f, types.MethodType) and isinstance(f.__func__, types.FunctionType) \
                and f.__func__.__module__.startswith('pamqp'):
            return self.call_pamqp(f.__func__, [f.__self__] + list(args), kwargs)
        if isinstance(f, type) and f.__module__.startswith('pamqp'):
            return self.construct(f, list(args), kwargs)
        return self.lib.call(f, list(args), kwargs)

    def call_pamqp(self, fn, args, kwargs):
        q = qualname(fn)
        if q in self.inline and self.depth > 0:
            return self.run_body(fn, args, kwargs)       # verified as part of the caller (listed in evidence)
        if self.registry is not None:
            c = self.registry.lookup(fn, args, self.views, kwargs)
            if c is not None and not (self.top is not None and self.top[0] is fn and self.depth == 0):
                self.called.append(c.name)
                return c.apply(self, fn, args, kwargs)
        if self.depth == 0 or q in self.inline or fn.__name__ == '<lambda>':
            return self.run_body(fn, args, kwargs)
        # a helper of the package with no contract of its own (e.g. one a refactoring just extracted): its real body is
        # executed as part of the caller - more precise than any contract; bounded depth, no recursion
        stack = self.__dict__.setdefault('inline_stack', [])
        if fn not in stack and len(stack) < 6 and self.depth < 12:
            stack.append(fn)
            self.auto_inlined.add(q)
            try:
                return self.run_body(fn, args, kwargs)
            finally:
                stack.pop()
        raise OutOfSubset('call to %s: no contract, recursive or too deep to inline' % q)

    def bind(self, fn, node, args, kwargs):
        a = node.args
        if a.vararg or a.kwarg or a.kwonlyargs or a.posonlyargs:
            raise OutOfSubset('star/kw-only parameters in %s' % fn.__name__)
        names = [x.arg for x in a.args]
        locs = {}
        if len(args) > len(names):
            raise Raised(TypeError, ('too many positional arguments',))
        for n, v in zip(names, args):
            locs[n] = v
        for k, v in kwargs.items():
            if k not in names or k in locs:
                raise Raised(TypeError, ('bad keyword %s' % k,))
            locs[k] = v
        defaults = fn.__defaults__ or ()
        for n, d in zip(names[len(names) - len(defaults):], defaults):
            if n not in locs:
                locs[n] = self.lift(d)       # the real default object (shared, as in Python)
        for n in names:
            if n not in locs:
                raise Raised(TypeError, ('missing argument %s' % n,))
        return locs

    def lift(self, v):
        """A real pamqp object that exists outside this call (a default argument, a module-level
        instance): seen by the executor as a heap object with provenance 'module' (identity preserved)."""
        if isinstance(v, type) or not type(v).__module__.startswith('pamqp') or callable(v):
            return v
        cache = self.st.__dict__.setdefault('lifted', {})
        if id(v) not in cache:
            names = list(getattr(type(v), '__slots__', ())) or list(getattr(v, '__dict__', {}))
            attrs = {n: self.lift(getattr(v, n)) for n in names if hasattr(v, n)}
            cache[id(v)] = SObj(type(v), attrs, provenance='module', label='shared:%s' % type(v).__name__)
            self.st.keep.append(v)
        return cache[id(v)]

    def run_body(self, fn, args, kwargs=None):
        node = function_ast(fn)
        if isinstance(node, ast.Lambda):
            locs = self.bind(fn, node, args, kwargs or {})
            fr = Frame(fn, locs, fn.__globals__)
            return self.eval(node.body, fr)
        locs = self.bind(fn, node, args, kwargs or {})
        fr = Frame(fn, locs, fn.__globals__)
        is_gen = any(isinstance(n, (ast.Yield, ast.YieldFrom)) for n in ast.walk(node))
        if is_gen:
            fr.yields = []
        self.depth += 1
        try:
            try:
                self.exec_block(node.body, fr)
            except _Return as r:
                if is_gen:
                    return fr.yields
                return r.value
            return fr.yields if is_gen else None
        finally:
            self.depth -= 1

    def run_lambda(self, clo, args):
        a = clo.node.args
        names = [x.arg for x in a.args]
        if len(names) != len(args):
            raise Raised(TypeError, ('lambda arity',))
        env = dict(clo.env)
        env.update(zip(names, args))
        fr = Frame(None, env, clo.globals)
        return self.eval(clo.node.body, fr)

    def construct(self, cls, args, kwargs):
        if issubclass(cls, BaseException):
            init = self.class_lookup(cls, '__init__')
            if isinstance(init, types.FunctionType) and (init.__module__ or '').startswith('pamqp'):
                # an exception class of the package with a constructor of its own: whatever that constructor raises
                # is what the `raise` statement raises
                self.call(init, [SObj(cls, provenance='fresh')] + list(args), kwargs)
            return SExc(cls, tuple(args))
        obj = SObj(cls, provenance='fresh')
        init = self.class_lookup(cls, '__init__')
        if isinstance(init, types.FunctionType):
            self.call(init, [obj] + args, kwargs)
        elif args or kwargs:
            raise Raised(TypeError, ('object() takes no arguments',))
        return obj

    @staticmethod
    def class_lookup(cls, name):
        for k in cls.__mro__:
            if name in k.__dict__:
                return k.__dict__[name]
        return _MISSING

    # ------------------------------------------------------------ statements
    def exec_block(self, stmts, fr):
        for s in stmts:
            self.exec_stmt(s, fr)

    def exec_stmt(self, s, fr):
        st = self.st
        st.steps += 1
        if st.steps > MAX_STEPS:
            raise OutOfSubset('step budget exhausted (unbounded unrolling?)')
        m = getattr(self, 'stmt_' + type(s).__name__, None)
        if m is None:
            raise OutOfSubset('statement %s' % type(s).__name__)
        return m(s, fr)

    def stmt_Expr(self, s, fr):
        if isinstance(s.value, ast.Constant):
            return  # docstring
        self.eval(s.value, fr)

    def stmt_Pass(self, s, fr):
        pass

    def stmt_Assert(self, s, fr):
        # default interpreter mode: a failing assert raises AssertionError (under -O the statement does not exist;
        # the ground unit env.import-state reports assert statements in the package)
        if not self.st.truth(self.eval(s.test, fr), 'assert@%d' % s.lineno):
            raise Raised(AssertionError, (), s.lineno)

    def stmt_Global(self, s, fr):
        fr.global_names.update(s.names)

    def stmt_Return(self, s, fr):
        raise _Return(self.eval(s.value, fr) if s.value is not None else None)

    def stmt_Break(self, s, fr):
        raise _Break()

    def stmt_Continue(self, s, fr):
        raise _Continue()

    def stmt_Assign(self, s, fr):
        v = self.eval(s.value, fr)
        for t in s.targets:
            self.assign(t, v, fr)

    def stmt_AnnAssign(self, s, fr):
        if s.value is not None:
            self.assign(s.target, self.eval(s.value, fr), fr)

    def stmt_AugAssign(self, s, fr):
        if isinstance(s.target, ast.Name):
            cur = self.load_name(s.target.id, fr)
        elif isinstance(s.target, ast.Attribute):
            cur = self.getattr(self.eval(s.target.value, fr), s.target.attr)
        else:
            raise OutOfSubset('augmented assignment target')
        if isinstance(cur, SBytes) and cur.mutable and isinstance(s.op, ast.Add):
            # bytearray.__iadd__: the SAME object grows (every alias sees it); a write unless this call allocated it
            new = self.st.to_rope(self.binop(ast.Add, cur, self.eval(s.value, fr)))
            cur.segs = list(new.segs)
            if id(cur) not in self.st.fresh_ids:
                self.st.writes.append(('bytearray', 'param', 'in-place +='))
            self.assign(s.target, cur, fr)
            return
        if isinstance(cur, (list, dict, bytearray)) or (isinstance(cur, SBytes) and cur.mutable):
            raise OutOfSubset('in-place augmented assignment on a mutable object')
        v = self.binop(type(s.op), cur, self.eval(s.value, fr))
        self.assign(s.target, v, fr)

    def assign(self, t, v, fr):
        if isinstance(t, ast.Name):
            if t.id in fr.global_names:
                mod = fr.globals['__name__']
                self.st.global_writes.append((mod, t.id, v))
                self.st.global_over[(mod, t.id)] = v
            else:
                fr.locals[t.id] = v
        elif isinstance(t, (ast.Tuple, ast.List)):
            items = self.unpack_iter(v, len(t.elts))
            for e, x in zip(t.elts, items):
                self.assign(e, x, fr)
        elif isinstance(t, ast.Attribute):
            self.setattr(self.eval(t.value, fr), t.attr, v)
        elif isinstance(t, ast.Subscript):
            obj = self.eval(t.value, fr)
            key = self.eval(t.slice, fr)
            self.setitem(obj, key, v)
        else:
            raise OutOfSubset('assignment target %s' % type(t).__name__)

    def unpack_iter(self, v, n):
        if isinstance(v, (tuple, list)):
            if len(v) != n:
                raise Raised(ValueError, ('unpack arity',))
            return list(v)
        raise OutOfSubset('unpacking a %s' % type(v).__name__)

    def stmt_If(self, s, fr):
        if self.st.truth(self.eval(s.test, fr), 'if@%d' % s.lineno):
            self.exec_block(s.body, fr)
        else:
            self.exec_block(s.orelse, fr)

    def stmt_Raise(self, s, fr):
        if s.cause is not None:
            raise OutOfSubset('raise ... from')
        if s.exc is None:
            cur = getattr(fr, 'handling', None)
            if cur is None:
                raise Raised(RuntimeError, ('no active exception',))
            raise cur
        e = self.eval(s.exc, fr)
        if isinstance(e, type) and issubclass(e, BaseException):
            self.construct(e, [], {})          # `raise C` instantiates C()
            raise Raised(e, (), s.lineno)
        if isinstance(e, SExc):
            raise Raised(e.cls, e.args, s.lineno)
        if isinstance(e, BaseException):
            raise Raised(type(e), e.args, s.lineno)
        raise OutOfSubset('raise of non-exception')

    def stmt_Try(self, s, fr):
        if s.finalbody:
            raise OutOfSubset('try/finally')
        try:
            self.exec_block(s.body, fr)
        except Raised as r:
            for h in s.handlers:
                if h.type is None:
                    match = True
                else:
                    ht = self.eval(h.type, fr)
                    types_ = ht if isinstance(ht, tuple) else (ht,)
                    for x in types_:
                        if not (isinstance(x, type) and issubclass(x, BaseException)):
                            raise OutOfSubset('except with a non-class')
                    match = issubclass(r.cls, tuple(types_))
                if match:
                    if h.name:
                        fr.locals[h.name] = SExc(r.cls, r.eargs)
                    prev = getattr(fr, 'handling', None)
                    fr.handling = r
                    try:
                        self.exec_block(h.body, fr)
                    finally:
                        fr.handling = prev
                    return
            raise
        else:
            self.exec_block(s.orelse, fr)

    def next_loop_key(self, fr):
        k = fr.loop_ordinal
        fr.loop_ordinal += 1
        return k

    def stmt_For(self, s, fr):
        if s.orelse:
            raise OutOfSubset('for/else')
        it = self.eval(s.iter, fr)
        ann = self.loop_annotation(fr, s)
        if ann is not None:
            return ann.run_for(self, s, fr, it)
        if isinstance(it, dict):
            it = list(it)
        if not isinstance(it, (list, tuple)):
            raise OutOfSubset('for over %s without a loop annotation' % type(it).__name__)
        for x in list(it):
            self.assign(s.target, x, fr)
            try:
                self.exec_block(s.body, fr)
            except _Break:
                break
            except _Continue:
                continue

    def stmt_While(self, s, fr):
        if s.orelse:
            raise OutOfSubset('while/else')
        ann = self.loop_annotation(fr, s)
        if ann is not None:
            return ann.run_while(self, s, fr)
        n = 0
        while True:
            if not self.st.truth(self.eval(s.test, fr), 'while@%d#%d' % (s.lineno, n)):
                break
            n += 1
            if n > 64:
                raise OutOfSubset('while loop at line %d: no annotation and no bound after 64 unrollings' % s.lineno)
            try:
                self.exec_block(s.body, fr)
            except _Break:
                break
            except _Continue:
                continue

    def loop_annotation(self, fr, s):
        if fr.fn is None or not self.loops:
            return None
        # ordinal = position of this loop among the loops of the function, in source order
        node = function_ast(fr.fn)
        loops = [n for n in ast.walk(node) if isinstance(n, (ast.For, ast.While))]
        loops.sort(key=lambda n: (n.lineno, n.col_offset))
        ordinal = loops.index(s)
        return self.loops.get((qualname(fr.fn), ordinal))

    # ------------------------------------------------------------ expressions
    def eval(self, e, fr):
        m = getattr(self, 'expr_' + type(e).__name__, None)
        if m is None:
            raise OutOfSubset('expression %s' % type(e).__name__)
        return m(e, fr)

    def expr_Constant(self, e, fr):
        return e.value

    def load_name(self, name, fr):
        if name in fr.locals and name not in fr.global_names:
            return fr.locals[name]
        mod = fr.globals.get('__name__')
        if (mod, name) in self.st.global_over:
            return self.st.global_over[(mod, name)]
        if name in fr.globals:
            return self.lift(fr.globals[name])
        if hasattr(builtins, name):
            return getattr(builtins, name)
        raise Raised(NameError, (name,))

    def expr_Name(self, e, fr):
        return self.load_name(e.id, fr)

    def expr_Tuple(self, e, fr):
        return tuple(self.eval(x, fr) for x in e.elts)

    def expr_List(self, e, fr):
        return self.st.allocated([self.eval(x, fr) for x in e.elts])

    def expr_Dict(self, e, fr):
        d = {}
        for k, v in zip(e.keys, e.values):
            if k is None:
                raise OutOfSubset('dict unpacking')
            kk = self.eval(k, fr)
            if sym.is_symbolic(kk):
                raise OutOfSubset('symbolic dict key in display')
            d[kk] = self.eval(v, fr)
        return self.st.allocated(d)

    def expr_Attribute(self, e, fr):
        return self.getattr(self.eval(e.value, fr), e.attr)

    def expr_Lambda(self, e, fr):
        return Closure(e, dict(fr.locals), fr.globals)

    def expr_IfExp(self, e, fr):
        if self.st.truth(self.eval(e.test, fr), 'ifexp@%d' % e.lineno):
            return self.eval(e.body, fr)
        return self.eval(e.orelse, fr)

    def expr_Yield(self, e, fr):
        if fr.yields is None:
            raise OutOfSubset('yield outside generator')
        fr.yields.append(self.eval(e.value, fr) if e.value is not None else None)
        return None

    def expr_GeneratorExp(self, e, fr):
        return self._comprehension(e, fr)

    def expr_ListComp(self, e, fr):
        return self._comprehension(e, fr)

    def _comprehension(self, e, fr):
        if len(e.generators) != 1 or e.generators[0].is_async:
            raise OutOfSubset('nested comprehension')
        g = e.generators[0]
        it = self.eval(g.iter, fr)
        if isinstance(it, dict):
            it = list(it)
        if not isinstance(it, (list, tuple)):
            raise OutOfSubset('comprehension over symbolic iterable')
        out = []
        sub = Frame(fr.fn, dict(fr.locals), fr.globals)
        for x in it:
            self.assign(g.target, x, sub)
            if all(self.st.truth(self.eval(c, sub), 'comp-if') for c in g.ifs):
                out.append(self.eval(e.elt, sub))
        return self.st.allocated(out)

    def expr_BoolOp(self, e, fr):
        is_and = isinstance(e.op, ast.And)
        v = None
        for i, x in enumerate(e.values):
            v = self.eval(x, fr)
            if i == len(e.values) - 1:
                return v
            t = self.st.truth(v, 'boolop@%d' % e.lineno)
            if is_and and not t:
                return v
            if not is_and and t:
                return v
        return v

    def expr_UnaryOp(self, e, fr):
        v = self.eval(e.operand, fr)
        if isinstance(e.op, ast.Not):
            if isinstance(v, SBool):
                return mk_bool(z3.Not(v.t))
            return not self.st.truth(v, 'not@%d' % e.lineno)
        if isinstance(e.op, ast.USub):
            if isinstance(v, (SInt, SBool)):
                return mk_int(-I(v))
            if not sym.is_symbolic(v):
                return -v
        if isinstance(e.op, ast.UAdd) and not sym.is_symbolic(v):
            return +v
        raise OutOfSubset('unary %s on %s' % (type(e.op).__name__, type(v).__name__))

    def expr_BinOp(self, e, fr):
        return self.binop(type(e.op), self.eval(e.left, fr), self.eval(e.right, fr))

    def binop(self, op, a, b):
        st = self.st
        if not sym.is_symbolic(a) and not sym.is_symbolic(b) and not isinstance(a, JoinList) and not isinstance(b, JoinList):
            try:
                return _CONCRETE_BINOPS[op](a, b)
            except KeyError:
                raise OutOfSubset('operator %s' % op.__name__)
            except Exception as exc:  # the program's own exception
                raise Raised(type(exc), exc.args)
        ai, bi = sym.is_intlike(a), sym.is_intlike(b)
        if ai and bi:
            return self.lib.int_binop(op, a, b)
        if op is ast.Add:
            if isinstance(a, (list, JoinList)) and isinstance(b, (list, JoinList)) and \
                    (isinstance(a, JoinList) or isinstance(b, JoinList)):
                segs = []
                for part in (a, b):
                    if isinstance(part, JoinList):
                        segs.extend(part.segs)
                    else:
                        for item in part:
                            if not sym.is_byteslike(item):
                                raise OutOfSubset('abstract list mixed with non-bytes items')
                            segs.extend(st.to_rope(item).segs)
                return JoinList(segs)
            if sym.is_byteslike(a) and sym.is_byteslike(b):
                return st.rope_concat(a, b)
            if isinstance(a, list) and isinstance(b, list):
                return a + b
            if isinstance(a, tuple) and isinstance(b, tuple):
                return a + b
            if sym.is_strlike(a) and sym.is_strlike(b):
                raise OutOfSubset('symbolic str concatenation')
            raise Raised(TypeError, ('unsupported operand types for +',))
        return self.lib.other_binop(op, a, b)

    def expr_Compare(self, e, fr):
        left = self.eval(e.left, fr)
        result = True
        for op, rn in zip(e.ops, e.comparators):
            right = self.eval(rn, fr)
            r = self.compare(type(op), left, right)
            if isinstance(r, bool):
                if not r:
                    return False
            else:
                result = r if result is True else mk_bool(z3.And(B(result), B(r)))
            left = right
        return result

    def compare(self, op, a, b):
        st = self.st
        if op in (ast.Is, ast.IsNot):
            r = self.identical(a, b)
            return r if op is ast.Is else self.neg(r)
        if op in (ast.In, ast.NotIn):
            r = self.contains(b, a)
            return r if op is ast.In else self.neg(r)
        if op in (ast.Eq, ast.NotEq):
            r = self.py_eq(a, b)
            return r if op is ast.Eq else self.neg(r)
        if not sym.is_symbolic(a) and not sym.is_symbolic(b):
            try:
                return _CONCRETE_CMP[op](a, b)
            except Exception as exc:
                raise Raised(type(exc), exc.args)
        if sym.is_intlike(a) and sym.is_intlike(b):
            x, y = I(a), I(b)
            return mk_bool({ast.Lt: x < y, ast.LtE: x <= y, ast.Gt: x > y, ast.GtE: x >= y}[op])
        if isinstance(a, (SFloat,)) or isinstance(b, (SFloat,)):
            raise OutOfSubset('float comparison')
        if (sym.is_intlike(a) or sym.is_strlike(a) or sym.is_byteslike(a) or a is None) and \
           (sym.is_intlike(b) or sym.is_strlike(b) or sym.is_byteslike(b) or b is None) and \
           not (sym.is_strlike(a) and sym.is_strlike(b)) and not (sym.is_byteslike(a) and sym.is_byteslike(b)):
            raise Raised(TypeError, ('ordering not supported between these types',))
        raise OutOfSubset('ordering comparison on %s / %s' % (type(a).__name__, type(b).__name__))

    @staticmethod
    def neg(r):
        if isinstance(r, bool):
            return not r
        return mk_bool(z3.Not(B(r)))

    def identical(self, a, b):
        # only None / True / False / identical objects are compared with `is` in the subset
        for x, y in ((a, b), (b, a)):
            if y is None:
                return x is None
            if y is True or y is False:
                if isinstance(x, SBool):
                    return mk_bool(x.t if y else z3.Not(x.t))
                if isinstance(x, bool):
                    return x is y
                return False
        if isinstance(a, (SObj,)) or isinstance(b, (SObj,)):
            return a is b
        if not sym.is_symbolic(a) and not sym.is_symbolic(b):
            return a is b
        raise OutOfSubset('`is` on symbolic values')

    def type_class(self, v):
        if sym.is_intlike(v):
            return 'int'
        if sym.is_strlike(v):
            return 'str'
        if sym.is_byteslike(v):
            return 'bytes'
        if v is None:
            return 'none'
        if isinstance(v, (float, SFloat)):
            return 'float'
        if isinstance(v, (tuple,)):
            return 'tuple'
        if isinstance(v, (list,)):
            return 'list'
        if isinstance(v, dict):
            return 'dict'
        if isinstance(v, SOpaque):
            return 'opaque:' + v.kind
        if isinstance(v, SObj):
            return 'obj'
        return 'other:' + type(v).__name__

    def py_eq(self, a, b):
        st = self.st
        if not sym.is_symbolic(a) and not sym.is_symbolic(b):
            return a == b
        ca, cb = self.type_class(a), self.type_class(b)
        if ca == 'int' and cb == 'int':
            return mk_bool(I(a) == I(b))
        if ca == 'str' and cb == 'str':
            return st.str_eq(a, b)
        if ca == 'bytes' and cb == 'bytes':
            for x, y in ((a, b), (b, a)):
                if isinstance(y, (bytes, bytearray)) and isinstance(x, SBytes):
                    # against a literal: decide the length, then compare octet by octet
                    if not st.branch(st.rope_len_term(x) == len(y), 'bytes-eq:len==%d' % len(y)):
                        return False
                    atoms, _ = st.take_bytes(st.expand(x.segs), len(y), 'bytes-eq')
                    ts = [I(p) == q for p, q in zip(atoms, y)]
                    return mk_bool(z3.And(ts)) if ts else True
            t, exact = st.rope_eq(a, b)
            if not exact:
                raise OutOfSubset('byte-string equality with unaligned shapes')
            return mk_bool(t)
        if ca in ('tuple', 'list') and ca == cb:
            if len(a) != len(b):
                return False
            rs = [self.py_eq(x, y) for x, y in zip(a, b)]
            if any(r is False for r in rs):
                return False
            rs = [B(r) for r in rs if r is not True]
            return mk_bool(z3.And(rs)) if rs else True
        simple = {'int', 'str', 'bytes', 'none', 'tuple', 'list', 'dict'}
        if ca in simple and cb in simple and ca != cb:
            return False
        if {ca, cb} & {'float'} and {ca, cb} & {'int'}:
            raise OutOfSubset('int == float')
        if ca in simple or cb in simple:
            other = b if ca in simple else a
            oc = cb if ca in simple else ca
            if oc.startswith('opaque:') and oc.split(':')[1] in ('decimal',):
                raise OutOfSubset('Decimal equality')
            if oc == 'float':
                return False if (ca if ca in simple else cb) in ('str', 'bytes', 'none', 'tuple', 'list', 'dict') else None
            if oc.startswith('opaque:'):
                kind = oc.split(':')[1]
                eqk = {'dict': 'dict', 'list': 'list', 'tuple': 'tuple', 'joinlist': 'list'}.get(kind)
                sc = ca if ca in simple else cb
                if eqk is None or eqk != sc:
                    return False   # different builtin types never compare equal here
                raise OutOfSubset('container equality')
            if oc == 'obj':
                if Interp.class_lookup(other.cls, '__eq__') is not _MISSING and \
                        Interp.class_lookup(other.cls, '__eq__') is not object.__dict__['__eq__']:
                    raise OutOfSubset('user-defined __eq__')
                return False
        if ca == 'obj' and cb == 'obj':
            if a is b:
                return True
            raise OutOfSubset('object equality')
        if isinstance(a, SOpaque) and isinstance(b, SOpaque) and a.kind == 'decimal' and b.kind == 'decimal':
            return self.lib.dec_eq(a, b)
        if isinstance(a, SOpaque) and isinstance(b, SOpaque) and a.t is not None and b.t is not None \
                and a.kind == b.kind and a.t.eq(b.t):
            if a.kind in ('decimal',):
                raise OutOfSubset('Decimal equality (NaN)')
            return True
        raise OutOfSubset('equality on %s / %s' % (ca, cb))

    def contains(self, container, item):
        if not sym.is_symbolic(container) and not sym.is_symbolic(item):
            try:
                return item in container
            except Exception as exc:
                raise Raised(type(exc), exc.args)
        if isinstance(container, (list, tuple)):
            rs = [self.py_eq(item, x) for x in container]
            if any(r is True for r in rs):
                return True
            rs = [B(r) for r in rs if r is not False]
            return mk_bool(z3.Or(rs)) if rs else False
        if isinstance(container, dict):
            return self.contains(list(container.keys()), item)
        if isinstance(container, SObj):
            f = self.class_lookup(container.cls, '__contains__')
            if isinstance(f, types.FunctionType):
                return self.call(f, [container, item])
        raise OutOfSubset('`in` on %s' % type(container).__name__)

    def expr_Subscript(self, e, fr):
        obj = self.eval(e.value, fr)
        if isinstance(e.slice, ast.Slice):
            if e.slice.step is not None:
                raise OutOfSubset('slice step')
            lo = self.eval(e.slice.lower, fr) if e.slice.lower is not None else None
            hi = self.eval(e.slice.upper, fr) if e.slice.upper is not None else None
            return self.getslice(obj, lo, hi, 'slice@%d' % e.lineno)
        key = self.eval(e.slice, fr)
        return self.getitem(obj, key, 'index@%d' % e.lineno)

    def getslice(self, obj, lo, hi, tag):
        st = self.st
        for b in (lo, hi):
            if b is not None and not sym.is_intlike(b):
                raise Raised(TypeError, ('slice indices must be integers',))
        if not sym.is_symbolic(obj) and not sym.is_symbolic(lo) and not sym.is_symbolic(hi):
            try:
                return obj[lo:hi]
            except Exception as exc:
                raise Raised(type(exc), exc.args)
        if sym.is_byteslike(obj):
            if getattr(st, 'garbled', False) and (isinstance(lo, SInt) or isinstance(hi, SInt)):
                # input already known not to be grammar-valid: any sub-string (over-approximation)
                c = st.new_chunk('garbled')
                st.assume(c.len <= st.rope_len_term(obj))
                return SBytes([c], getattr(obj, 'mutable', False))
            return st.rope_slice(obj, lo, hi, tag)
        if sym.is_strlike(obj):
            if (lo in (None, 0)) and isinstance(hi, int) and hi >= 0:
                return st.str_slice_prefix(obj, hi)
            raise OutOfSubset('general str slice')
        raise OutOfSubset('slice of %s' % type(obj).__name__)

    def getitem(self, obj, key, tag='index'):
        st = self.st
        if not sym.is_symbolic(obj) and not sym.is_symbolic(key):
            try:
                return obj[key]
            except Exception as exc:
                raise Raised(type(exc), exc.args)
        if isinstance(obj, (list, tuple)):
            if isinstance(key, int):
                try:
                    return obj[key]
                except IndexError as exc:
                    raise Raised(IndexError, exc.args)
            raise OutOfSubset('symbolic index into a list')
        if isinstance(obj, dict):
            return self.lib.dict_getitem(obj, key)
        if sym.is_byteslike(obj):
            if not sym.is_intlike(key):
                raise Raised(TypeError, ('byte indices must be integers',))
            return st.rope_index(obj, key, tag)
        if isinstance(obj, SObj):
            f = self.class_lookup(obj.cls, '__getitem__')
            if isinstance(f, types.FunctionType):
                return self.call(f, [obj, key])
        raise OutOfSubset('subscript of %s' % type(obj).__name__)

    def setitem(self, obj, key, v):
        if isinstance(obj, (dict, list)) and id(obj) not in self.st.fresh_ids:
            # an object that existed before this call (module level, class level or a default argument)
            self.st.writes.append((type(obj).__name__, 'module', 'setitem'))
            raise OutOfSubset('item store into a pre-existing %s (shared state)' % type(obj).__name__)
        if isinstance(obj, dict) and not sym.is_symbolic(key):
            self.note_write(obj, 'setitem')
            obj[key] = v
            return
        return self.lib.setitem(obj, key, v)

    def note_write(self, obj, what):
        self.st.writes.append((id(obj), type(obj).__name__, what))

    def expr_Call(self, e, fr):
        f = self.eval(e.func, fr)
        args = []
        for a in e.args:
            if isinstance(a, ast.Starred):
                raise OutOfSubset('star-args')
            args.append(self.eval(a, fr))
        kwargs = {}
        for k in e.keywords:
            if k.arg is None:
                raise OutOfSubset('**kwargs')
            kwargs[k.arg] = self.eval(k.value, fr)
        return self.call(f, args, kwargs)

    def expr_JoinedStr(self, e, fr):
        raise OutOfSubset('f-string')

    # ------------------------------------------------------------ attributes
    def getattr(self, obj, name, default=None, has_default=False):
        if isinstance(obj, SObj):
            if name in obj.attrs:
                return self.resolve(obj.attrs[name])
            if name == '__class__':
                return obj.cls
            raw = self.class_lookup(obj.cls, name)
            if raw is _MISSING or type(raw).__name__ == 'member_descriptor':
                if has_default:
                    return default
                raise Raised(AttributeError, (name,))
            if isinstance(raw, classmethod):
                return BoundMethod(raw.__func__, obj.cls)
            if isinstance(raw, staticmethod):
                return raw.__func__
            if isinstance(raw, types.FunctionType):
                return BoundMethod(raw, obj)
            if isinstance(raw, property):
                raise OutOfSubset('property')
            return raw
        if isinstance(obj, type) and obj.__module__.startswith('pamqp'):
            raw = self.class_lookup(obj, name)
            if raw is _MISSING:
                try:
                    return getattr(obj, name)
                except AttributeError:
                    if has_default:
                        return default
                    raise Raised(AttributeError, (name,))
            if isinstance(raw, classmethod):
                return BoundMethod(raw.__func__, obj)
            if isinstance(raw, staticmethod):
                return raw.__func__
            return raw
        if isinstance(obj, JoinList):
            if name == 'append':
                return _JoinAppend(obj)
            raise OutOfSubset('attribute %s of an abstract list' % name)
        if isinstance(obj, SExc):
            if name == 'args':
                return obj.args
            raise OutOfSubset('attribute %s of exception' % name)
        if sym.is_symbolic(obj) and not isinstance(obj, (list, tuple, dict)):
            return self.lib.sym_getattr(obj, name, default, has_default)
        try:
            return getattr(obj, name)
        except AttributeError:
            if has_default:
                return default
            raise Raised(AttributeError, (name,))

    def resolve(self, v):
        """cond ? a : b  ->  a or b, deciding cond on this path."""
        while isinstance(v, SCond):
            v = v.a if self.st.branch(v.cond, 'optional-value') else v.b
        return v

    def setattr(self, obj, name, v):
        if isinstance(obj, SObj):
            self.st.writes.append((obj.label, obj.provenance, name))
            obj.attrs[name] = v
            return
        if isinstance(obj, type) or isinstance(obj, types.ModuleType):
            self.st.writes.append((getattr(obj, '__name__', '?'), 'module', name))
            raise OutOfSubset('store to class/module attribute %s' % name)
        raise OutOfSubset('attribute store on %s' % type(obj).__name__)


_MISSING = object()

import operator as _op

_CONCRETE_BINOPS = {
    ast.Add: _op.add, ast.Sub: _op.sub, ast.Mult: _op.mul, ast.Div: _op.truediv,
    ast.FloorDiv: _op.floordiv, ast.Mod: _op.mod, ast.Pow: _op.pow,
    ast.LShift: _op.lshift, ast.RShift: _op.rshift, ast.BitAnd: _op.and_,
    ast.BitOr: _op.or_, ast.BitXor: _op.xor,
}
_CONCRETE_CMP = {ast.Lt: _op.lt, ast.LtE: _op.le, ast.Gt: _op.gt, ast.GtE: _op.ge}
