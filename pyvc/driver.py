"""pyvc.driver -- runs one property's check: obligations -> verdicts -> replay ->
VIOLATION / KNOWN-FINDING lines -> evidence file.

Exit codes: 0 held; 1 violation (with a VIOLATION line); 3 checker malfunction."""
import argparse
import hashlib
import json
import multiprocessing
import os
import random
import subprocess
import sys
import tempfile
import time
import traceback

VERIF = os.path.dirname(os.path.dirname(os.path.abspath(__file__)))
REPO = os.environ.get('PAMQP_REPO', '/repo')
if REPO not in sys.path:
    sys.path.insert(0, REPO)
if VERIF not in sys.path:
    sys.path.insert(0, VERIF)
os.environ.setdefault('PAMQP_VERIF', '1')
sys.dont_write_bytecode = True

TRUSTED_BASE = [
    'A1 the pyvc generator itself (symbolic executor, rope normaliser, contract matcher), CPython ast, z3/cvc5',
    'A2 struct: big-endian layouts of B b H h I i L l Q q x; range/length errors are struct.error',
    'A3 float packing, int(float), float division, datetime.timestamp(): wrapped in assumed contracts (no FP reasoning)',
    'A4 str.encode/bytes.decode utf-8 mutually inverse; sorted orders str keys by code point; dict.items enumerates each key once; bytes.join, list.append, len',
    'A5 datetime / calendar / decimal library contracts',
    'A6 re: fullmatch of the compiled DOMAIN_REGEX patterns decided by an interval automaton over all code points',
    'A7 default warning filters and logging configuration (effects of LOGGER.* and warnings.warn dropped)',
    'A8 no monkey-patching; foreign types implement no special methods the codec uses; no RecursionError/MemoryError',
    'A9 Python ints are mathematical integers (exact, not an idealisation)',
]


def source_hashes():
    out = {}
    pk = os.path.join(REPO, 'pamqp')
    for f in sorted(os.listdir(pk)):
        if f.endswith('.py'):
            with open(os.path.join(pk, f), 'rb') as fh:
                out['pamqp/' + f] = hashlib.sha256(fh.read()).hexdigest()
    return out


# ---------------------------------------------------------------- worker side
_REG = None


def _registry():
    global _REG
    if _REG is None:
        from props import catalog
        _REG = catalog.build_registry()
    return _REG


def run_unit(task):
    """One unit of work (a contract, a lemma or a ground table) in a worker."""
    kind, name, opts = task
    t0 = time.time()
    try:
        from pyvc.contract import Verifier
        from props import catalog
        reg = _registry()
        if kind == 'contract':
            c = reg.get(name)
            v = Verifier(reg, want_smt2=opts.get('smt2', False), timeout_ms=opts.get('timeout_ms', 10000))
            results, stats = v.verify(c)
            stats = {k: (sorted(x) if isinstance(x, set) else x) for k, x in stats.items()}
            keep = catalog.PROPS[opts['prop']].case_filter(name)
            if keep is not None:
                # shared contract: only the clauses this property states are reported under it
                def mine(r):
                    tail = r.name.rsplit('#', 1)[-1]
                    if r.kind in ('engine', 'exhaustive', 'callsite'):
                        return True
                    if r.kind == 'raises' and '*raises*' in keep:
                        return True      # this property states the exception set of every clause
                    if r.kind == 'cover':
                        return tail.split(':', 1)[-1] in keep
                    return tail in keep or tail == 'modifies-nothing'
                results = [r for r in results if mine(r)]
        else:
            results, stats = catalog.run_unit(kind, name, reg, opts)
        payload = []
        for r in results:
            d = r.to_json()
            d['model'] = r.model
            if r.smt2 is not None and opts.get('smt2_dir'):
                fn = os.path.join(opts['smt2_dir'], '%08x.smt2' % (hash(r.name) & 0xffffffff))
                with open(fn, 'w') as fh:
                    fh.write('(set-logic ALL)\n' + r.smt2)
                d['smt2_file'] = fn
            payload.append(d)
        return {'kind': kind, 'name': name, 'results': payload, 'stats': stats, 'seconds': time.time() - t0}
    except Exception:
        return {'kind': kind, 'name': name, 'error': traceback.format_exc(), 'results': [], 'stats': {},
                'seconds': time.time() - t0}


def cli_solver(cmd, path, timeout):
    t0 = time.time()
    try:
        p = subprocess.run(cmd + [path], capture_output=True, text=True, timeout=timeout)
        out = p.stdout.strip().splitlines()
        verdict = out[0].strip() if out else 'error'
    except subprocess.TimeoutExpired:
        verdict = 'timeout'
    return verdict, time.time() - t0


def portfolio(job):
    path, timeout = job
    res = {}
    res['z3-4.8.12'] = cli_solver(['/usr/bin/z3', '-smt2', '-T:%d' % timeout], path, timeout + 5)
    res['cvc5-1.0.3'] = cli_solver(['/usr/bin/cvc5', '--lang', 'smt2', '--tlimit=%d' % (timeout * 1000)], path, timeout + 5)
    return path, res


# ---------------------------------------------------------------- main
def _established(reg, c):
    names = sorted(c.established_by(reg)) if c.established_by else []
    return {'verified_contracts': len(names), 'examples': names[:4],
            'relation': 'same clauses on a partition of the instances, or a weakening of their postconditions; the relation itself is '
                        'by construction, checked only for existence of the verified units (engine.assumed-views)'}


def load_known():
    p = os.environ.get('PAMQP_KNOWN_FINDINGS') or os.path.join(VERIF, 'known_findings.json')   # (override: self-test of this path only)
    if os.path.exists(p):
        with open(p) as fh:
            return json.load(fh)
    return {'findings': [], 'fixed': []}


def matches_known(known, prop, contract, sig):
    for f in known.get('findings', []):
        if f.get('property') == prop and f.get('contract') == contract and f.get('input_signature') == sig:
            return f
    return None


def main(argv=None):
    ap = argparse.ArgumentParser()
    ap.add_argument('prop')
    ap.add_argument('--tier', default=os.environ.get('VERIF_TIER', 'quick'), choices=['quick', 'thorough'])
    ap.add_argument('--jobs', type=int, default=12)
    ap.add_argument('--only', default=None, help='restrict to units whose name contains this')
    ap.add_argument('--verbose', '-v', action='store_true')
    a = ap.parse_args(argv)
    seed = int(os.environ.get('VERIF_SEED', '0') or 0)
    t_start = time.time()
    try:
        return _main(a, seed, t_start)
    except SystemExit:
        raise
    except Exception:
        traceback.print_exc()
        print('CHECKER-ERROR property=%s (engine malfunction, not a verdict)' % a.prop)
        return 3


def _main(a, seed, t_start):
    from props import catalog
    prop = a.prop
    spec = catalog.PROPS.get(prop)
    if spec is None:
        print('unknown property', prop)
        return 3
    rng = random.Random(seed)
    thorough = a.tier == 'thorough'
    smt2_dir = tempfile.mkdtemp(prefix='pyvc-%s-' % prop) if thorough else None
    opts = {'smt2': thorough, 'smt2_dir': smt2_dir, 'timeout_ms': 60000 if thorough else 10000,
            'tier': a.tier, 'seed': seed, 'prop': prop}
    tasks = [(k, n, opts) for (k, n) in spec.units()]
    heavy = ('ContentHeader.unmarshal', 'unmarshal(g)[ContentHeader]', 'BasicProperties.', '_unmarshal_header_frame',
             '[Connection.Start', '[Exchange.', '[Queue.', '[Basic.Consume', 'c02_', '[Basic.')
    tasks.sort(key=lambda t: next((i for i, h in enumerate(heavy) if h in t[1]), len(heavy)))   # longest first
    if a.only:
        tasks = [t for t in tasks if a.only in t[1]]
    ctx = multiprocessing.get_context('fork')
    # Modular verification: a caller is checked against the callee's contract, so the property rests on every contract
    # applied at a call site.  The cone is therefore closed under 'contracts used': whatever the units of this round
    # applied and nobody has verified yet is verified in the next round (trusted views: the contracts establishing them,
    # thorough tier only; quick lists them as assumed).
    reg0 = _registry()
    done = {t[1] for t in tasks}
    outs, closure_added, pending = [], [], tasks
    used_all = set()          # every contract applied at a call site in this property's run (all rounds)
    while pending:
        with ctx.Pool(min(a.jobs, max(1, len(pending)))) as pool:
            round_outs = pool.map(run_unit, pending, chunksize=1)
        outs += round_outs
        if a.only:
            break
        used = set()
        for o in round_outs:
            used.update((o.get('stats') or {}).get('callees', []))
        used_all |= used
        new = []
        for n in sorted(used):
            c = reg0.get(n)
            if c is None:
                continue
            names = [n]
            if c.trusted:
                names = sorted(c.established_by(reg0)) if (thorough and c.established_by) else []
            new += [m for m in names if m not in done and reg0.get(m) is not None and not reg0.get(m).trusted]
        new = sorted(set(new))
        done.update(new)
        closure_added += new
        pending = [('contract', n, opts) for n in new]
        if any(n.endswith('.validate') or (n.startswith('pamqp.commands.') and '__init__' in n) for n in done) \
                and 'C13.name-character-class' not in done:
            # validators rest on assumption A6 (the compiled name patterns are one anchored character-class star:
            # exactly the specified characters, and no backtracking): its ground check belongs to every cone that uses them
            done.add('C13.name-character-class')
            pending.append(('ground', 'C13.name-character-class', opts))
        pending.sort(key=lambda t: next((i for i, h in enumerate(heavy) if h in t[1]), len(heavy)))

    all_results = []
    unit_rows = []
    errors = []
    total_paths = total_queries = 0
    for o in outs:
        if o.get('error'):
            errors.append((o['name'], o['error']))
        for r in o['results']:
            r['unit'] = o['name']
            r['unit_kind'] = o['kind']
            all_results.append(r)
        st = o.get('stats') or {}
        total_paths += st.get('paths', 0)
        total_queries += st.get('queries', 0)
        unit_rows.append({'unit': o['name'], 'kind': o['kind'], 'obligations': len(o['results']),
                          'proved': sum(1 for r in o['results'] if r['verdict'] == 'proved'),
                          'paths': st.get('paths', 0), 'seconds': round(o['seconds'], 2)})
    if errors:
        for n, e in errors:
            print('ENGINE ERROR in unit %s:\n%s' % (n, e))
        print('CHECKER-ERROR property=%s' % prop)
        return 3
    broken = [r for r in all_results if r['name'].startswith('engine.') and r['verdict'] != 'proved']
    if broken:
        for r in broken:
            print('ENGINE SELF-CHECK FAILED: %s -- %s' % (r['name'], r['detail']))
        print('CHECKER-ERROR property=%s (a library model disagrees with CPython: no verdict is given)' % prop)
        return 3
    n_obl = len(all_results)
    if n_obl < spec.floor and not a.only:
        print('CHECKER-ERROR property=%s: only %d obligations generated (floor %d): vacuous run' % (prop, n_obl, spec.floor))
        return 3

    # ---- portfolio (thorough: every obligation with SMT text goes to the two CLI back ends)
    by_backend = {}
    for r in all_results:
        b = by_backend.setdefault(r['backend'], {'count': 0, 'seconds': 0.0})
        b['count'] += 1
        b['seconds'] += r['seconds']
    disagreements = []
    if thorough:
        files = [(r['smt2_file'], 60) for r in all_results if r.get('smt2_file')]
        with ctx.Pool(a.jobs) as pool:
            pres = dict(pool.map(portfolio, files, chunksize=4))
        for r in all_results:
            f = r.get('smt2_file')
            if not f:
                continue
            want = {'proved': 'unsat', 'refuted': 'sat'}.get(r['verdict'])
            for be, (verdict, secs) in pres[f].items():
                b = by_backend.setdefault(be, {'count': 0, 'seconds': 0.0, 'agree': 0, 'unknown': 0})
                b['count'] += 1
                b['seconds'] += secs
                if verdict == want:
                    b['agree'] = b.get('agree', 0) + 1
                elif verdict in ('sat', 'unsat') and want is not None:
                    disagreements.append((r['name'], be, verdict, want))
                else:
                    b['unknown'] = b.get('unknown', 0) + 1
        import shutil
        shutil.rmtree(smt2_dir, ignore_errors=True)
        if disagreements:
            for d in disagreements:
                print('BACKEND DISAGREEMENT %s: %s says %s, z3 api says %s' % d)
            print('CHECKER-ERROR property=%s' % prop)
            return 3

    # ---- refuted obligations -> replay on the real code
    from pyvc import replay
    reg = _registry()
    known = load_known()
    violations = []
    known_hits = []
    refuted = [r for r in all_results if r['verdict'] == 'refuted']
    undecided = [r for r in all_results if r['verdict'] == 'undecided']
    rdir = os.path.join(VERIF, 'replays', prop)
    os.makedirs(rdir, exist_ok=True)
    for old_file in os.listdir(rdir):          # replay files belong to one run
        if old_file.endswith('.json'):
            os.remove(os.path.join(rdir, old_file))
    seen_sigs = set()
    bounded_rows = []
    bounded_done = {}
    per_clause = {}
    for r in refuted:
        # one replay per (unit, clause): further refuted paths of the same clause are listed in the evidence only
        ck = (r['unit'], r['name'].rsplit('#', 1)[-1])
        per_clause[ck] = per_clause.get(ck, 0) + 1
        if per_clause[ck] > 2:
            continue
        contract = None
        if r['unit_kind'] == 'contract':
            contract = reg.get(r['unit'])
        info = {'confirmed': False, 'why': 'no concrete input for this obligation kind'}
        if r.get('replay') is not None:
            info = r['replay']           # unit supplied its own native replay (lemmas, ground tables)
        elif contract is not None and r.get('model'):
            info = replay.confirm(contract, r['model'], frame=r['name'].endswith('#modifies-nothing'))
        failing = None
        if info.get('confirmed'):
            failing = info
        elif contract is not None and contract.bounded:
            if contract.name not in bounded_done:
                n, fails = replay.bounded_check(contract, rng, n=30)
                bounded_done[contract.name] = (n, fails)
            n, fails = bounded_done[contract.name]
            if fails:
                failing = dict(fails[0])
                failing['confirmed'] = True
                failing['found_by'] = 'bounded search after a sat verdict'
        sig = json.dumps(failing.get('args') if failing else r['name'].split('@')[0] + '#' + r['name'].split('#')[-1], sort_keys=True, default=repr)
        key = (r['unit'], sig)
        if key in seen_sigs:
            continue
        seen_sigs.add(key)
        kf = matches_known(known, prop, r['unit'], sig)
        if kf is not None:
            known_hits.append((kf, r))
            continue
        fname = os.path.join('replays', prop, '%s.json' % hashlib.sha1((r['name'] + sig).encode()).hexdigest()[:16])
        with open(os.path.join(VERIF, fname), 'w') as fh:
            json.dump({'property': prop, 'obligation': r['name'], 'unit': r['unit'], 'verdict': 'refuted (sat)',
                       'detail': r['detail'], 'solver': r['backend'], 'model': r.get('model'),
                       'replay': failing or info, 'input_signature': sig,
                       'rerun': './check replay %s' % fname}, fh, indent=1, default=repr)
        violations.append((fname, failing is not None, r))

    # ---- bounded stand-in (thorough: every contract of the cone; quick: only behind undecided ones)
    undecided_units = sorted({r['unit'] for r in undecided if r['unit_kind'] == 'contract'})
    # an undecided contract that cannot be run natively on its own (no concrete samples for its parameters) is exercised
    # through the contracts that apply it: their bounded runs call the real callee
    callers = {}
    for o in outs:
        for callee in (o.get('stats') or {}).get('callees', []):
            callers.setdefault(callee, set()).add(o['name'])
    def runnable(c):        # (a native run shows return values and exceptions, not the attribute writes of an effect clause)
        return c.bounded and not any(k.effects is not None for k in c.cases)
    frontier = [u for u in undecided_units if reg.get(u) is not None and not runnable(reg.get(u))]
    seen_up = set(frontier)
    while frontier:
        u = frontier.pop()
        for caller in sorted(callers.get(u, ())):
            if caller in seen_up or reg.get(caller) is None:
                continue
            seen_up.add(caller)
            if runnable(reg.get(caller)):
                if caller not in undecided_units:
                    undecided_units.append(caller)
            else:
                frontier.append(caller)
    targets = ([n for (k, n) in spec.units() if k == 'contract'] + closure_added) if thorough else undecided_units
    targets = list(targets) + [n for (k, n) in spec.units() if k == 'contract' and reg.get(n).bounded_only and n not in targets]
    for name in targets:
        c = reg.get(name)
        if not c.bounded or any(k.effects is not None for k in c.cases):
            continue      # (a native run shows return values and exceptions, not the attribute / module writes of an effect clause)
        if name in bounded_done:
            n, fails = bounded_done[name]
        else:
            try:
                n, fails = replay.bounded_check(c, rng, n=60 if thorough else 20)
            except Exception as exc:
                bounded_rows.append({'contract': name, 'error': repr(exc)})
                continue
            bounded_done[name] = (n, fails)
        bounded_rows.append({'contract': name, 'inputs': n, 'failures': len(fails), 'bounded': True})
        for f in fails[:3]:          # a few witnesses per contract are enough; the count is in the evidence
            sig = json.dumps(f.get('args'), sort_keys=True, default=repr)
            if (name, sig) in seen_sigs:
                continue
            seen_sigs.add((name, sig))
            kf = matches_known(known, prop, name, sig)
            if kf is not None:
                known_hits.append((kf, {'name': name}))
                continue
            fname = os.path.join('replays', prop, 'bounded-%s.json' % hashlib.sha1((name + sig).encode()).hexdigest()[:16])
            with open(os.path.join(VERIF, fname), 'w') as fh:
                json.dump({'property': prop, 'obligation': '%s (bounded run-time contract check)' % name, 'unit': name,
                           'replay': f, 'input_signature': sig, 'rerun': './check replay %s' % fname}, fh, indent=1, default=repr)
            violations.append((fname, True, {'name': name + '#bounded', 'detail': 'contract violated at run time'}))

    # ---- extra per-property checks (self-tests, TZ children ...)
    extras = [spec.extra(a.tier, rng)] if (spec.extra and not a.only) else []
    from props import bounded as _bounded
    if any(prop in ps for ps in _bounded.SESSION_KINDS.values()) and not a.only:
        extras.append(_bounded.session_history(prop, a.tier, rng))     # the history clause: every call as in a fresh interpreter
    if prop == 'C16' and thorough and not a.only:
        from props import bounded_threads as _threads
        extras.append(_threads.thread_session(prop, a.tier, rng))    # stress run of the thread clause (bounded, probabilistic)
    extra = {'violations': [], 'coverage': {}}
    for e in extras:
        extra['violations'] += e.get('violations', [])
        for k, v in e.get('coverage', {}).items():
            if isinstance(v, list):
                extra['coverage'][k] = extra['coverage'].get(k, []) + v
            else:
                extra['coverage'][k] = v
    for v in extra.get('violations', []):
        violations.append(v)

    # ---- report
    for kf, r in known_hits:
        print('KNOWN-FINDING: property=%s %s' % (prop, kf.get('what', r.get('name'))))
    for fname, has_input, r in violations:
        line = 'VIOLATION property=%s replay=%s' % (prop, os.path.join(VERIF, fname))
        if not has_input:
            line += ' no-failing-input-found'
        print(line)
        if a.verbose:
            print('   ', r.get('name'), '--', r.get('detail'))
    discharged = sum(1 for r in all_results if r['verdict'] == 'proved')
    wall = time.time() - t_start
    level = 'proof' if (discharged == n_obl and not undecided) else 'exploration'
    samples = []
    for r in all_results[:: max(1, n_obl // 8)][:8]:
        samples.append({'obligation': r['name'], 'verdict': r['verdict'], 'backend': r['backend'],
                        'seconds': r['seconds'], 'kind': r['kind']})
    cov = {
        'obligations': n_obl, 'discharged': discharged,
        'checker_cmd': './check %s --tier %s' % (prop, a.tier),
        'trusted_base': TRUSTED_BASE,
        'functions_under_contract': sorted({n for (k, n) in spec.units() if k == 'contract'} | set(closure_added)),
        'contracts_added_by_cone_closure': closure_added,
        'helpers_without_contract_executed_inline': sorted({n for o in outs for n in (o.get('stats') or {}).get('auto_inlined', [])}),
        'units': unit_rows, 'by_backend': {k: {kk: (round(vv, 3) if isinstance(vv, float) else vv) for kk, vv in v.items()}
                                           for k, v in by_backend.items()},
        'paths_enumerated': total_paths, 'solver_queries_during_execution': total_queries,
        'undecided': [{'obligation': r['name'], 'why': r['detail']} for r in undecided][:50],
        'refuted': [{'obligation': r['name'], 'why': r['detail']} for r in refuted][:50],
        'bounded_checks': bounded_rows,
        'functions_bounded_not_proved': sorted(n for (k, n) in spec.units() if k == 'contract' and reg.get(n).bounded_only),
        # assumed = trusted views this property's cone actually applied at a call site (the registry-wide list is kept
        # separately: a trusted view that no unit of this run applied is not an assumption of this property)
        'assumed_contracts': sorted({c.name for c in reg.all if c.trusted and c.name in used_all}),
        'assumed_contracts_established_by': {c.name: _established(reg, c) for c in reg.all
                                             if c.trusted and c.name in used_all},
        'assumed_contracts_established_in_this_run': bool(thorough),
        'trusted_views_in_registry_not_applied_here': sorted({c.name for c in reg.all
                                                              if c.trusted and c.name not in used_all}),
        'known_findings_hit': [kf for kf, _ in known_hits],
        'source_sha256': source_hashes(),
        'samples': samples,
        'evaluations': n_obl + sum(b.get('inputs', 0) for b in bounded_rows),
        'distinct_nontrivial': len({r['name'] for r in all_results if r['kind'] != 'cover' and r['backend'] != 'syntactic'}),
        'rule': 'one obligation per (function, type case, path, contract clause) generated from the real AST; '
                'non-trivial = needed a solver query (not syntactically true); bounded inputs counted separately',
        'exhaustive': bool(spec.exhaustive),
    }
    for k, v in extra.get('coverage', {}).items():
        if k == 'bounded_pipeline_checks':
            cov['bounded_checks'] = cov.get('bounded_checks', []) + v
        else:
            cov[k] = v
    ev = {'property_id': prop, 'tier': a.tier, 'seed': seed, 'level': level, 'coverage': cov,
          'assumptions': TRUSTED_BASE + list(spec.assumptions), 'wall_s': round(wall, 2),
          'violations': len(violations)}
    os.makedirs(os.path.join(VERIF, 'evidence'), exist_ok=True)
    with open(os.path.join(VERIF, 'evidence', prop + '.json'), 'w') as fh:
        json.dump(ev, fh, indent=1, default=repr)
    print('%s %s: %d obligations, %d discharged, %d undecided, %d refuted, %d violation(s), %d known; %.1fs'
          % (prop, a.tier, n_obl, discharged, len(undecided), len(refuted), len(violations), len(known_hits), wall))
    if a.verbose:
        for r in undecided[:20]:
            print('  undecided:', r['name'], '--', r['detail'])
    return 1 if violations else 0


if __name__ == '__main__':
    sys.exit(main())
