"""pyvc.replay -- from a counter-model to a native run of the real code, and the
bounded stand-in (run-time check of a contract on generated inputs)."""
import datetime
import decimal
import json
import os
import random
import struct
import subprocess
import time

import z3

from . import sym, values
from .sym import State, SObj, Raised, OutOfSubset, EngineError, Infeasible
from .contract import Ctx, values_equal, bind_args
from .dsl import is_true

VENV_PY = '/venv/bin/python'
REPO = os.environ.get('PAMQP_REPO', '/repo')
VERIF = os.path.dirname(os.path.dirname(os.path.abspath(__file__)))


def native_calls(jobs, timeout=120, setup=None):
    """Run jobs on the real code under the pinned interpreter."""
    if not jobs:
        return []
    env = dict(os.environ)
    env['PYTHONPATH'] = '%s:%s' % (REPO, VERIF)
    env['PAMQP_VERIF'] = '1'
    env['PAMQP_VERIF_SETUP'] = json.dumps(setup or {})
    try:
        p = subprocess.run([VENV_PY, '-W', 'ignore', '-m', 'pyvc.replay_runner'],
                           input='\n'.join(json.dumps(j) for j in jobs) + '\n',
                           capture_output=True, text=True, env=env, timeout=timeout, cwd=VERIF)
        stdout, stderr = p.stdout, p.stderr
    except subprocess.TimeoutExpired as exc:
        stdout = exc.stdout.decode() if isinstance(exc.stdout, bytes) else (exc.stdout or '')
        stderr = 'runner timed out after %ss' % timeout
    outs = []
    for l in stdout.splitlines():
        try:
            outs.append(json.loads(l))
        except ValueError:
            break
    if len(outs) != len(jobs):
        # a hard crash / hang of the runner on job len(outs)
        outs.append({'outcome': 'runner-died', 'stderr': stderr[-400:]})
        while len(outs) < len(jobs):
            outs.append({'outcome': 'not-run'})
    return outs


def to_sym_world(v):
    """Concrete python value decoded from a descriptor -> what contracts see."""
    if isinstance(v, dict) and '__obj__' in v:
        cls = values.resolve_class(v['__obj__'])
        return SObj(cls, {k: to_sym_world(x) for k, x in v['attrs'].items()}, provenance='param')
    return v


def desc_to_sym(d):
    """A JSON descriptor (as printed by the runner) -> contract-world value: pamqp objects become SObj."""
    if isinstance(d, dict) and '__obj__' in d:
        cls = values.resolve_class(d['__obj__'])
        return SObj(cls, {k: desc_to_sym(x) for k, x in d.get('attrs', {}).items()}, provenance='fresh')
    if isinstance(d, dict) and '__tuple__' in d:
        return tuple(desc_to_sym(x) for x in d['__tuple__'])
    if isinstance(d, list):
        return [desc_to_sym(x) for x in d]
    return values.decode(d)


def expected_outcome(contract, args, reads=None):
    """Evaluate the contract on concrete arguments.
    -> ('return', value) | ('raise', cls) | ('post', callable) | ('none', None)"""
    st = State()
    ctx = Ctx(st, {k: (v if isinstance(v, SObj) else to_sym_world(v)) for k, v in args.items()})
    ctx.reads = dict(reads or {})
    for (mod, var, _spec) in contract.reads:
        if var not in ctx.reads:
            ctx.reads[var] = getattr(__import__(mod, fromlist=['x']), var)
        st.global_over[(mod, var)] = ctx.reads[var]
    if contract.requires is not None and not is_true(st, contract.requires(ctx)):
        return ('outside-precondition', None), ctx
    for case in contract.cases:
        g = True if case.when is None else case.when(ctx)
        if is_true(st, g):
            if case.raises is not None:
                return ('raise', case.raises), ctx
            if case.returns is not None:
                return ('return', case.returns(ctx)), ctx
            if case.post is not None or case.may_raise:
                return ('post', case), ctx
            return ('return', None), ctx
    return ('none', None), ctx


def make_job(contract, args, reads=None, **extra):
    import inspect
    names = list(inspect.signature(contract.fn()).parameters)
    job = {'target': contract.target, 'args': [values.encode(args[n]) for n in names if n in args]}
    if reads:
        job['globals'] = {}
        for (mod, var, _spec) in contract.reads:
            if var in reads:
                job['globals']['%s.%s' % (mod, var)] = values.encode(reads[var])
    job.update(extra)
    return job


def exc_matches(observed, cls):
    classes = cls if isinstance(cls, tuple) else (cls,)
    names = {'%s.%s' % (k.__module__, k.__qualname__) for k in classes}
    return bool(names & set(observed.get('mro', [])))


def agrees(contract, exp, ctx, observed):
    """Does the observed native outcome satisfy the contract's expected one?
    -> True / False / None (cannot tell)."""
    kind, val = exp
    if kind in ('none', 'outside-precondition'):
        return None
    if observed['outcome'] in ('harness-error', 'runner-died', 'not-run'):
        return None
    if observed['outcome'] == 'budget':
        return False          # contracts promise termination
    if kind == 'raise':
        return observed['outcome'] == 'raise' and exc_matches(observed, val)
    if observed['outcome'] == 'raise':
        if kind == 'post' and val.may_raise:
            return exc_matches(observed, val.may_raise)
        return False
    try:
        got = desc_to_sym(observed['value'])
    except Exception:
        return None
    if kind == 'post':
        if val.post is None:
            return True
        try:
            r = val.post(ctx, got)
            if isinstance(r, tuple):
                r = r[0]
            return is_true(ctx.st, r)
        except Exception:
            return None
    t, exact = values_equal(ctx.st, val, got)
    if not exact:
        return None           # the comparison could not be made (symbolic residue on the specification side): no verdict
    try:
        return is_true(ctx.st, t)
    except ValueError:
        return None


def describe(exp):
    kind, val = exp
    if kind == 'raise':
        return 'raises %s' % (val.__name__ if isinstance(val, type) else '/'.join(k.__name__ for k in val))
    if kind == 'return':
        return 'returns %r' % (val,)
    if kind == 'post':
        return 'satisfies clause %r%s' % (val.name, ' or raises ' + '/'.join(k.__name__ for k in val.may_raise) if val.may_raise else '')
    return kind


def confirm(contract, model, frame=False):
    """Replay one counter-model natively.  -> dict(confirmed, expected, observed, args)"""
    if not model or 'args' not in model:
        return {'confirmed': False, 'why': 'no model'}
    if _has_abstract(model):
        return {'confirmed': False, 'why': 'model contains abstract values', 'args': _printable(model)}
    reads = model.get('globals') or {}
    try:
        args = {k: desc_to_sym(values.encode(v)) for k, v in model['args'].items()}
        exp, ctx = expected_outcome(contract, args, reads)
        job = make_job(contract, model['args'], reads)
    except Exception as exc:   # never let a replay problem kill the run: the verdict stands, unconfirmed
        return {'confirmed': False, 'why': 'contract not concretely evaluable: %r' % (exc,), 'args': _printable(model)}
    if frame:
        # a frame obligation ('the call changes none of its arguments'): compare the arguments after the call with before
        job['report_args'] = True
        obs = native_calls([job])[0]
        after = obs.get('args_after')
        changed = after is not None and after != job['args']
        return {'confirmed': changed, 'expected': 'arguments after the call equal the arguments before it: %s' % json.dumps(job['args'])[:400],
                'observed': obs, 'args': _printable(model), 'job': job}
    obs = native_calls([job])[0]
    ok = agrees(contract, exp, ctx, obs)
    if ok is not False and _has_time(model['args']):
        # a refutation that rests on the host time zone (LOCAL_OFFSET != 0 in the model) shows only under such a zone
        for tz in ('Asia/Kolkata', 'America/New_York', 'Pacific/Kiritimati'):
            job_tz = dict(job, tz=tz)
            obs_tz = native_calls([job_tz])[0]
            if agrees(contract, exp, ctx, obs_tz) is False:
                return {'confirmed': True, 'expected': describe(exp), 'observed': obs_tz, 'args': _printable(model),
                        'job': job_tz, 'host_time_zone': tz}
    return {'confirmed': ok is False, 'expected': describe(exp), 'observed': obs,
            'args': _printable(model), 'job': job}


def _has_time(v):
    import datetime as _dt
    import time as _time
    if isinstance(v, (_dt.datetime, _time.struct_time)):
        return True
    if isinstance(v, dict):
        return '__datetime__' in v or '__struct_time__' in v or any(_has_time(x) for x in v.values())
    if isinstance(v, (list, tuple)):
        return any(_has_time(x) for x in v)
    return False


def _has_abstract(v):
    if isinstance(v, dict):
        if '__abstract__' in v:
            return True
        return any(_has_abstract(x) for x in v.values())
    if isinstance(v, (list, tuple)):
        return any(_has_abstract(x) for x in v)
    return False


def _printable(v):
    """JSON-safe, human-readable rendering (plain dicts keep their keys)."""
    if isinstance(v, dict) and not any(k.startswith('__') for k in v if isinstance(k, str)):
        return {str(k): _printable(x) for k, x in v.items()}
    if isinstance(v, (list, tuple)) and not isinstance(v, tuple):
        return [_printable(x) for x in v]
    return json.loads(json.dumps(values.encode(v), default=repr))


# ---------------------------------------------------------------- bounded stand-in
INT_EDGES = sorted({s * (2 ** k) + d for k in (0, 7, 8, 15, 16, 31, 32, 63, 64, 127) for s in (1, -1)
                    for d in (-2, -1, 0, 1, 2)} | {0, 1, 2, -1, 255, 256, 127, 128, 70000, -70000})


SPECIAL_STRINGS = ['', 'a', '\ufeff', '\ufeffkey', '\ufeff\ufeffbye', 'k\ufeff', '\x00', 'a\x00b', 'é', '€uro', '\U0001F600',
                   '\u2028', '\xa0x', 'x' * 255, 'é' * 127, ' lead', 'trail ', '\r\n']
_CORPUS = []


def wire_corpus():
    """Grammar-shaped octet strings with boundary content (what random octets practically never are): length-prefixed
    strings with unusual first / last characters, 8-octet timestamps around the representable range, reference-encoded
    tables, and whole frames of every kind whose bodies begin / end with the frame-end octet."""
    if _CORPUS:
        return list(_CORPUS)
    import random as _random
    import struct as _struct
    from spec import ref
    rng = _random.Random(7)
    out = []
    for s in SPECIAL_STRINGS:
        u = s.encode('utf-8')
        if len(u) <= 255:
            out += [bytes([len(u)]) + u, bytes([len(u)]) + u + b'rest']
        out += [_struct.pack('>I', len(u)) + u, _struct.pack('>I', len(u)) + u + b'\xce']
    stamps = [0, 1, 2 ** 32 - 1, 2 ** 32, 253402300799, 253402300800, 253402300799999, 253402300800000, 10 ** 15,
              2 ** 63 - 1, 2 ** 63, 2 ** 64 - 1]
    out += [_struct.pack('>Q', t) for t in stamps]
    tables = []
    for _ in range(8):
        try:
            tables.append(ref.enc_table(ref.gen_table(rng, 2)))
        except ref.Refused:
            pass
    tables += [b'\x00\x00\x00\x00'] + [ref.enc_table({'t': t}) for t in ('\ufeffx', True, 2 ** 40)]
    out += tables
    out += [b'T' + _struct.pack('>Q', t) for t in stamps[:8]]

    def frame(kind, channel, payload):
        return bytes([kind]) + _struct.pack('>HI', channel, len(payload)) + payload + b'\xce'
    bodies = [b'', b'x', b'\xce', b'payload\xce\xce\xce', b'\xce' * 9, b'\xcebody', b'\x00' * 5, frame(3, 1, b'inner')]
    for ch in (0, 1, 32767, 32768, 65535):
        for b in bodies[:4] if ch else bodies:
            out.append(frame(3, ch, b))
    out += [frame(8, ch, b'') for ch in (0, 1, 5, 65535)] + [b'AMQP\x00\x00\x09\x01', b'AMQP\x01\x01\x00\x09']
    # protocol headers: followed by more buffered octets, cut short, with look-alike prefixes and with octets that are
    # special to formatting code ('{', '}', '%')
    for h in (b'AMQP\x00\x00\x09\x01', b'AMQP\x00\x00\x00\x00', b'AMQP\x00\x00\x00\x09', b'AMQP\x00\x00{\x01', b'AMQP\x00}\x00\x00',
              b'AMQP\x00%s%d', b'AMQP{0}{}'):
        out += [h + b'\x01', h + frame(8, 0, b''), h + b'\x00' * 9]
        out += [h[:k] for k in range(4, 8)]
    out += [b'AMQQ\x00\x00\x09\x01', b'A\x00\x01\x00\x00\x00\x01\x00\xce', b'AMQ', b'A', b'AMQp\x00\x00\x09\x01\x00']
    ack = _struct.pack('>IQB', 0x003C0050, 2 ** 63, 1)
    out += [frame(1, ch, ack) for ch in (0, 40000)]
    for s in ('\ufeffq', 'q', ''):
        u = s.encode()
        for t in tables[:3]:
            out.append(frame(1, 1, _struct.pack('>IH', 0x0032000A, 0) + bytes([len(u)]) + u + b'\x1f' + t))       # Queue.Declare
        out.append(frame(1, 2, _struct.pack('>I', 0x003C001E) + bytes([len(u)]) + u))                              # Basic.Cancel-ish
    for size in (0, 1, 2 ** 63 - 1, 2 ** 63, 2 ** 64 - 1):
        out.append(frame(2, 1, _struct.pack('>HHQH', 60, 0, size, 0)))
        out.append(frame(2, 7, _struct.pack('>HHQH', 60, 0, size, 0x9040) + b'\x01a' + b'\x02' + _struct.pack('>Q', stamps[3])))
    for size in (2 ** 31, 2 ** 32 - 8, 2 ** 32 - 1):
        out.append(bytes([3]) + _struct.pack('>HI', 1, size) + b'hello\xce')
    _CORPUS.extend(out)
    return list(out)


def sample_values(label, rng, n):
    """Concrete inputs for one type class (boundaries first, then random)."""
    if label == 'int':
        out = list(INT_EDGES)
        out += [rng.randint(-2 ** 70, 2 ** 70) for _ in range(n)] + [rng.randint(-70000, 70000) for _ in range(n)]
        return out
    if label == 'bool':
        return [False, True]
    if label == 'None':
        return [None]
    if label in ('bytes', 'bytearray'):
        out = [b'', b'\x00', b'\xff', b'\xce', b'AMQP', bytes(range(8)), b'\x00' * 4, b'\xff' * 9]
        out += [b'\xce' * 131065, b'AMQP' * 40000]   # beyond the maximum frame size (early: job lists are capped)
        out += wire_corpus()
        out += [bytes(rng.randrange(256) for _ in range(rng.randrange(0, 24))) for _ in range(n)]
        return [bytearray(x) for x in out] if label == 'bytearray' else out
    if label == 'str':
        pool = ['', 'a', '0', 'ab c', 'é', '€uro', '\U0001F600', 'x' * 127, 'x' * 128, 'x' * 129, 'x' * 255,
                'x' * 256, 'x' * 257, 'é' * 127, 'é' * 128, '\ud800', 'a.b-c_d:e@f#g,h/i j'] + SPECIAL_STRINGS
        alphabet = 'abcXYZ019-_.:@#,/ é€\U0001F600!\n'
        pool += [''.join(rng.choice(alphabet) for _ in range(rng.randrange(0, 12))) for _ in range(n)]
        return pool
    if label == 'float':
        return [0.0, -0.0, 1.5, -2.25, 1e38, 3.5e38, 1e300, float('inf'), float('-inf'), float('nan'), 0.1] + \
               [rng.uniform(-1e6, 1e6) for _ in range(n)]
    if label == 'Decimal':
        D = decimal.Decimal
        return [D('0'), D('1'), D('-1'), D('1.5'), D('-1.5'), D('3.14159'), D('1E-7'), D('1.5E-7'), D('1E+3'),
                D('2147483647'), D('2147483648'), D('-2147483648'), D('-2147483649'), D('21474836.47'),
                D('NaN'), D('Infinity'), D('0.000'), D('-0.01')]
    if label == 'datetime-naive':
        dt = datetime.datetime
        return [dt(1970, 1, 1), dt(2000, 2, 29, 23, 59, 59, 999999), dt(2106, 2, 7, 6, 28, 15),
                dt(2106, 2, 7, 6, 28, 16), dt(1969, 12, 31, 23, 59, 59), dt(2021, 3, 28, 2, 30), dt(9999, 12, 31)]
    if label == 'datetime-aware':
        dt, tz, td = datetime.datetime, datetime.timezone, datetime.timedelta
        return [dt(1970, 1, 1, tzinfo=tz.utc), dt(2006, 5, 21, 16, 30, 10, tzinfo=tz(td(hours=9))),
                dt(2021, 11, 7, 1, 30, tzinfo=tz(td(hours=-5))), dt(2000, 1, 1, 5, 30, tzinfo=tz(td(hours=5, minutes=30))),
                dt(1969, 12, 31, 23, 0, tzinfo=tz(td(hours=-3)))]
    if label == 'struct_time':
        return [time.gmtime(0), time.gmtime(1_000_000_000), time.gmtime(4294967295), time.gmtime(86400 * 365)]
    if label == 'dict':
        return [{}, {'a': 1}, {'b': 'x', 'a': None}]
    if label == 'list':
        return [[], [1], [True, 'a', None]]
    if label == 'tuple':
        return [(), (1, 2)]
    if label == 'foreign':
        return [{'__foreign__': True}]
    return []


def _nominal(label, v):
    if label == 'int':
        return isinstance(v, int) and 0 <= v <= 255
    if label in ('bytes', 'bytearray'):
        return 0 < len(v) <= 24
    if label == 'str':
        return 0 < len(v) <= 12 and v.isascii()
    if isinstance(v, dict) and '__obj__' in v:
        return all(_nominal('int' if isinstance(x, int) and not isinstance(x, bool) else
                            'bytes' if isinstance(x, (bytes, bytearray)) else 'str' if isinstance(x, str) else '?', x)
                   or isinstance(x, (bool, type(None))) for x in v['attrs'].values())
    return True


def bounded_check(contract, rng, n=40, max_jobs=600):
    """Run-time check of the contract on generated inputs (labelled bounded).
    -> (evaluations, failures[list of dict])"""
    import itertools
    combos = []
    for insts in itertools.product(*[spec.instances() for _, spec in contract.params]):
        pools = []
        for (pname, _), inst in zip(contract.params, insts):
            sampler = inst[2] if len(inst) > 2 else None
            pool = sampler(rng, n) if sampler else sample_values(inst[0], rng, n)
            pools.append(pool)
        if any(not p for p in pools):
            continue
        if len(pools) == 1:
            for v in pools[0]:
                combos.append({contract.params[0][0]: v})
        else:
            # every value of every pool once, the other arguments at nominal values; then random mixes
            labels = [inst[0] for inst in insts]
            noms = [[v for v in pool if _nominal(lab, v)] or pool[:3] for lab, pool in zip(labels, pools)]
            for i, pool in enumerate(pools):
                for v in pool:
                    combo = {p[0]: rng.choice(nm) for p, nm in zip(contract.params, noms)}
                    combo[contract.params[i][0]] = v
                    combos.append(combo)
            for _ in range(n):
                combos.append({p[0]: rng.choice(pool) for p, pool in zip(contract.params, pools)})
    read_pools = []
    for (mod, var, spec) in contract.reads:
        read_pools.append((var, [v for inst in spec.instances() for v in sample_values(inst[0], rng, 2)]))
    jobs, metas = [], []
    for args in combos[:max_jobs]:
        reads_list = [{}]
        if read_pools:
            reads_list = [dict(zip([v for v, _ in read_pools], vals))
                          for vals in itertools.product(*[p for _, p in read_pools])]
        for reads in reads_list:
            dargs = {k: (values.decode(v) if isinstance(v, dict) and '__foreign__' in v else v) for k, v in args.items()}
            try:
                exp, ctx = expected_outcome(contract, dargs, reads)
            except (EngineError, OutOfSubset, Infeasible, ValueError, Raised, TypeError, AttributeError):
                continue
            if exp[0] in ('none', 'outside-precondition'):
                continue
            jobs.append(make_job(contract, args, reads))
            metas.append((args, reads, exp, ctx))
    outs = native_calls(jobs) if jobs else []
    failures = []
    for (args, reads, exp, ctx), obs, job in zip(metas, outs, jobs):
        ok = agrees(contract, exp, ctx, obs)
        if ok is False:
            failures.append({'args': {'args': _printable(args), **({'globals': _printable(reads)} if reads else {})},
                             'expected': describe(exp), 'observed': obs, 'job': job})
    return len(jobs), failures
