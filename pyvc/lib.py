"""pyvc.lib -- models of the builtins and library functions pamqp calls.

These are the *assumed* library contracts (DESIGN 2.4, A2-A6).  Each is
cross-checked against CPython on concrete inputs by pyvc.selfcheck.
"""
import ast
import builtins
import calendar
import datetime
import decimal
import logging
import re
import struct as _struct
import time
import types
import warnings

import z3

from . import sym
from .sym import (SInt, SBool, SBytes, SStr, SFloat, SOpaque, SObj, SExc, Chunk,
                  Raised, OutOfSubset, EngineError, I, B, mk_int, mk_bool)

# uninterpreted functions for the assumed float / regex contracts
f32_bytes = z3.Function('f32_bytes', sym.FloatS, sym.BytesS)
f64_bytes = z3.Function('f64_bytes', sym.FloatS, sym.BytesS)
f32_fits = z3.Function('f32_fits', sym.FloatS, z3.BoolSort())
f32_of = z3.Function('f32_of', sym.BytesS, sym.FloatS)
f64_of = z3.Function('f64_of', sym.BytesS, sym.FloatS)
round32 = z3.Function('round32', sym.FloatS, sym.FloatS)
int_to_float = z3.Function('int_to_float', z3.IntSort(), sym.FloatS)
regex_match = z3.Function('regex_match', z3.IntSort(), sym.StrS, z3.BoolSort())
float_div = z3.Function('float_div', z3.IntSort(), z3.IntSort(), sym.FloatS)

# time: whole-second instants; LOCAL_OFFSET is *uninterpreted*: any use of a host-time-zone dependent library
# function puts it into the result, where no proof can get rid of it (C15)
LOCAL_OFFSET = z3.Function('LOCAL_OFFSET', z3.IntSort(), z3.IntSort())        # seconds east of UTC the host applies at an instant
float_of_seconds = z3.Function('float_of_seconds', z3.IntSort(), sym.FloatS)  # a float timestamp whose integer part is the argument
REGEX_IDS = {}


def regex_id(pattern):
    key = (pattern.pattern, pattern.flags)
    if key not in REGEX_IDS:
        REGEX_IDS[key] = len(REGEX_IDS) + 1
    return REGEX_IDS[key]


def regex_term(st, pattern, s):
    """fullmatch(pattern, s) for a symbolic str as an uninterpreted predicate,
    tied to CPython's own answer on every string literal the path knows."""
    rid = regex_id(pattern)
    if not hasattr(st, 'regex_seen'):
        st.regex_seen = {}
        st.literal_hooks = list(getattr(st, 'literal_hooks', ())) + [_regex_literal_hook]
    t = st.str_term(s)
    st.regex_seen[rid] = pattern
    st.str_facts(sym.EMPTY_STR)
    for lit, lt_ in [('', sym.EMPTY_STR)] + list(st.str_lits.items()):
        key = ('regex', rid, lit)
        if key not in st.facts_done:
            st.facts_done.add(key)
            ok = pattern.fullmatch(lit) is not None
            f = regex_match(z3.IntVal(rid), lt_)
            st.assume(f if ok else z3.Not(f))
    return regex_match(z3.IntVal(rid), t)


def _regex_literal_hook(st, lit, term):
    for rid, pattern in st.regex_seen.items():
        key = ('regex', rid, lit)
        if key not in st.facts_done:
            st.facts_done.add(key)
            f = regex_match(z3.IntVal(rid), term)
            st.assume(f if pattern.fullmatch(lit) is not None else z3.Not(f))


def is_intlike_(v):
    return sym.is_intlike(v)


class SymMethod:
    __slots__ = ('obj', 'name')

    def __init__(self, obj, name):
        self.obj = obj
        self.name = name


class IntSubclass(int):
    """Stands for 'some subclass of int' (enum.IntEnum members, user classes): what type() may return for an int."""


class StrSubclass(str):
    pass


class FloatSubclass(float):
    pass


class Library:
    def __init__(self, interp):
        self.ip = interp

    @property
    def st(self):
        return self.ip.st

    # ------------------------------------------------------------ dispatch
    def call(self, f, args, kwargs):
        st = self.st
        from .interp import pytype
        if isinstance(f, SymMethod):
            return self.sym_method(f.obj, f.name, args, kwargs)
        # --- builtins that must see symbolic values
        if f is isinstance:
            return self.b_isinstance(*args)
        if f is type and len(args) == 1:
            v = args[0]
            if isinstance(v, (SInt, SStr, SFloat)) and not getattr(st, 'garbled', False):
                # a value of type class int / str / float may be an instance of a SUBCLASS (enum.IntEnum, a user class):
                # isinstance() cannot tell, type() can - code that dispatches on the exact type sees both
                key = ('exact-type', id(getattr(v, 't', v)))
                if key not in st.decided:
                    st.decided[key] = st.branch(st.fresh_bool('exact_builtin_type'), 'type():exact-builtin-type')
                if not st.decided[key]:
                    st.subclass_values = getattr(st, 'subclass_values', [])
                    st.subclass_values.append(v)
                    return {SInt: IntSubclass, SStr: StrSubclass, SFloat: FloatSubclass}[type(v)]
            return pytype(v)
        if f is len:
            return self.b_len(args[0])
        if f is getattr:
            if not isinstance(args[1], str):
                raise OutOfSubset('getattr with symbolic name')
            if len(args) == 3:
                return self.ip.getattr(args[0], args[1], args[2], True)
            return self.ip.getattr(args[0], args[1])
        if f is setattr:
            if not isinstance(args[1], str):
                raise OutOfSubset('setattr with symbolic name')
            return self.ip.setattr(args[0], args[1], args[2])
        if f is hasattr:
            try:
                self.ip.getattr(args[0], args[1])
                return True
            except Raised as r:
                if r.cls is AttributeError:
                    return False
                raise
        if f is int:
            return self.b_int(*args, **kwargs)
        if f is bool:
            if not args:
                return False
            v = args[0]
            if isinstance(v, SBool):
                return v
            if isinstance(v, SInt):
                return mk_bool(v.t != 0)
            if sym.is_symbolic(v):
                return st.truth(v, 'bool()')
            return bool(v)
        if f is str:
            return self.b_str(*args)
        if f is bytearray or f is bytes:
            return self.b_bytes(f, *args)
        if f is all or f is any:
            items = args[0]
            if not isinstance(items, (list, tuple)):
                raise OutOfSubset('all/any over symbolic iterable')
            for x in items:
                t = st.truth(x, f.__name__)
                if f is all and not t:
                    return False
                if f is any and t:
                    return True
            return f is all
        if f is sorted:
            return self.b_sorted(*args, **kwargs)
        if f is id:
            return st.fresh_int('id') if sym.is_symbolic(args[0]) else 0
        if f is hex and sym.is_symbolic(args[0]):
            return '<hex>'
        if f is repr and sym.is_symbolic(args[0]):
            return '<repr>'
        if f in (list, tuple) and args and isinstance(args[0], (list, tuple)):
            return st.allocated(f(args[0])) if f is list else f(args[0])
        if f in (list, dict) and not args and not kwargs:
            return st.allocated(f())
        if f is reversed and isinstance(args[0], (list, tuple)):
            return list(reversed(args[0]))
        # --- struct
        if f is _struct.pack:
            return self.struct_pack(args[0], args[1:])
        if f is _struct.unpack:
            return self.struct_unpack(args[0], args[1], exact=True)
        if f is _struct.unpack_from:
            return self.struct_unpack(args[0], args[1], exact=False,
                                      offset=args[2] if len(args) > 2 else kwargs.get('offset', 0))
        if f is _struct.calcsize and not sym.is_symbolic(args[0]):
            return _struct.calcsize(args[0])
        recv = getattr(f, '__self__', None)
        name = getattr(f, '__name__', None)
        if recv is datetime.datetime and name == 'fromtimestamp':
            return self.dt_fromtimestamp(args, kwargs)
        if isinstance(recv, _struct.Struct):
            if name == 'pack':
                return self.struct_pack(recv.format, args)
            if name == 'unpack':
                return self.struct_unpack(recv.format, args[0], exact=True)
            if name == 'unpack_from':
                off = args[1] if len(args) > 1 else kwargs.get('offset', 0)
                return self.struct_unpack(recv.format, args[0], exact=False, offset=off)
        # --- logging / warnings: effects dropped (A7), arguments were evaluated
        if isinstance(recv, logging.Logger) or f is warnings.warn:
            if name == 'isEnabledFor':
                return SBool(st.fresh_bool('log_enabled'))       # any logging configuration: both branches are explored
            if name == 'getEffectiveLevel':
                return SInt(st.fresh_int('log_level'))
            return None
        # --- methods of concrete receivers with possibly symbolic arguments
        if recv is not None and not isinstance(recv, types.ModuleType) and name is not None \
                and type(f).__name__ in ('builtin_function_or_method', 'method-wrapper', 'method_descriptor'):
            return self.concrete_method(recv, name, args, kwargs, f)
        if isinstance(recv, re.Pattern):
            return self.concrete_method(recv, name, args, kwargs, f)
        if f is datetime.datetime.fromtimestamp or (recv is datetime.datetime and name == 'fromtimestamp'):
            return self.dt_fromtimestamp(args, kwargs)
        if f is calendar.timegm:
            return self.cal_timegm(args[0])
        if f is time.mktime:
            return self.time_mktime(args[0])
        if f is decimal.Decimal:
            return self.dec_new(args)
        # --- everything else: only when fully concrete
        if not sym.is_symbolic(args) and not sym.is_symbolic(list(kwargs.values())):
            if f in _PURE_CONCRETE or (isinstance(f, type) and f.__module__ in ('builtins', 'decimal', 'datetime')):
                try:
                    return f(*args, **kwargs)
                except Exception as exc:
                    raise Raised(type(exc), exc.args)
            if isinstance(f, type) and issubclass(f, BaseException):
                return SExc(f, tuple(args))
        if isinstance(f, type) and issubclass(f, BaseException):
            return SExc(f, tuple(args))
        raise OutOfSubset('call to %r' % (getattr(f, '__qualname__', f),))

    # ------------------------------------------------------------ builtins
    def b_isinstance(self, v, t):
        from .interp import pytype
        ts = t if isinstance(t, tuple) else (t,)
        for x in ts:
            if not isinstance(x, type):
                raise OutOfSubset('isinstance with non-type')
        return issubclass(pytype(v), tuple(ts))

    def b_len(self, v):
        st = self.st
        if isinstance(v, SBytes):
            return st.rope_len(v)
        if isinstance(v, SStr):
            return st.str_len(v)
        if isinstance(v, SObj):
            f = self.ip.class_lookup(v.cls, '__len__')
            if isinstance(f, types.FunctionType):
                return self.ip.call(f, [v])
            raise Raised(TypeError, ('object has no len()',))
        if isinstance(v, SOpaque):
            if 'len' in v.info:
                return mk_int(v.info['len'])
            if v.kind in ('dict', 'list', 'tuple', 'joinlist'):
                raise OutOfSubset('len of abstract %s' % v.kind)
            raise Raised(TypeError, ('object has no len()',))
        if isinstance(v, (SInt, SBool, SFloat)) or v is None or isinstance(v, (int, float)):
            raise Raised(TypeError, ('object has no len()',))
        try:
            return len(v)
        except TypeError as exc:
            raise Raised(TypeError, exc.args)

    def b_int(self, v=0, base=None):
        if base is not None:
            raise OutOfSubset('int with base')
        if isinstance(v, SInt):
            return v
        if isinstance(v, SBool):
            return mk_int(I(v))
        if isinstance(v, SFloat):
            return self.float_to_int(v)
        if isinstance(v, SOpaque) and v.kind == 'decimal':
            return self.dec_to_int(v)
        if sym.is_symbolic(v):
            raise OutOfSubset('int() of %s' % type(v).__name__)
        try:
            return int(v)
        except Exception as exc:
            raise Raised(type(exc), exc.args)

    def b_str(self, v=''):
        if isinstance(v, SStr):
            return v
        if sym.is_symbolic(v):
            if isinstance(v, SOpaque) and v.kind == 'decimal':
                raise OutOfSubset('str(Decimal)')
            return '<str>'
        return str(v)

    def b_bytes(self, f, v=b''):
        st = self.st
        if sym.is_byteslike(v):
            r = st.to_rope(v)
            out = st.mk_bytes(r.segs, f is bytearray)
            return st.allocated(out) if f is bytearray else out      # a new object: in-place changes to it touch nobody else
        if sym.is_symbolic(v):
            raise OutOfSubset('%s() of %s' % (f.__name__, type(v).__name__))
        try:
            return f(v)
        except Exception as exc:
            raise Raised(type(exc), exc.args)

    def b_sorted(self, v, **kw):
        if kw:
            raise OutOfSubset('sorted with key/reverse')
        if isinstance(v, SOpaque) and v.kind == 'items':
            return SOpaque('sorted_items', v.t, dict(v.info))
        if isinstance(v, (list, tuple)) and not sym.is_symbolic(v):
            return sorted(v)
        raise OutOfSubset('sorted on %s' % type(v).__name__)

    def concrete_method(self, recv, name, args, kwargs, f):
        st = self.st
        if isinstance(recv, (list, dict)) and id(recv) not in st.fresh_ids and \
                name in ('append', 'extend', 'insert', 'pop', 'reverse', 'sort', 'clear', 'remove', 'update', 'setdefault',
                         'popitem', '__setitem__', '__delitem__'):
            st.writes.append((type(recv).__name__, 'module', name))
            raise OutOfSubset('%s.%s on a pre-existing object (shared state)' % (type(recv).__name__, name))
        if isinstance(recv, list) and name in ('append', 'extend', 'insert', 'pop', 'reverse', 'sort', 'clear'):
            self.ip.note_write(recv, name)
            if name == 'sort' and sym.is_symbolic(recv):
                raise OutOfSubset('sort of symbolic list')
            return f(*args, **kwargs)
        if isinstance(recv, dict):
            if name in ('get', 'items', 'keys', 'values', 'copy', '__contains__'):
                if args and sym.is_symbolic(args[0]):
                    return self.dict_get_symbolic(recv, args, name)
                r = f(*args, **kwargs)
                return list(r) if name in ('items', 'keys', 'values') else r
            if name in ('pop', 'update', 'setdefault', 'clear', 'popitem'):
                self.ip.note_write(recv, name)
                if sym.is_symbolic(args):
                    raise OutOfSubset('dict mutation with symbolic key')
                return f(*args, **kwargs)
        if isinstance(recv, (bytes, bytearray)) and name == 'join':
            parts = args[0]
            from .loops import JoinList
            if isinstance(parts, JoinList):
                if len(recv):
                    raise OutOfSubset('join with separator on abstract list')
                return st.mk_bytes(parts.segs)
            if not isinstance(parts, (list, tuple)):
                raise OutOfSubset('join over %s' % type(parts).__name__)
            segs = []
            for i, p in enumerate(parts):
                if not sym.is_byteslike(p):
                    raise Raised(TypeError, ('sequence item %d: expected a bytes-like object' % i,))
                if i and len(recv):
                    segs.extend(list(recv))
                segs.extend(st.to_rope(p).segs)
            return st.mk_bytes(segs)
        if isinstance(recv, (bytes, bytearray)) and name == 'decode' and not sym.is_symbolic(args):
            try:
                return f(*args, **kwargs)
            except UnicodeDecodeError:
                raise Raised(UnicodeDecodeError, ())
        if isinstance(recv, str) and name == 'format':
            if sym.is_symbolic(args) or sym.is_symbolic(list(kwargs.values())):
                return '<message>'
            try:
                return f(*args, **kwargs)
            except Exception as exc:
                raise Raised(type(exc), exc.args)
        if isinstance(recv, re.Pattern) and name in ('fullmatch', 'match', 'search'):
            s = args[0]
            if isinstance(s, SStr):
                if name != 'fullmatch':
                    # '^...$' patterns: match == fullmatch only without a trailing newline; keep exact
                    raise OutOfSubset('re.%s on symbolic str' % name)
                return mk_bool(regex_term(st, recv, s))
            if sym.is_symbolic(s):
                raise Raised(TypeError, ('expected string or bytes-like object',))
            try:
                return f(*args, **kwargs)
            except Exception as exc:
                raise Raised(type(exc), exc.args)
        if not sym.is_symbolic(args) and not sym.is_symbolic(list(kwargs.values())):
            if isinstance(recv, (str, bytes, int, float, tuple, frozenset, decimal.Decimal,
                                 datetime.datetime, datetime.timezone, datetime.timedelta, time.struct_time)):
                try:
                    return f(*args, **kwargs)
                except Exception as exc:
                    raise Raised(type(exc), exc.args)
        raise OutOfSubset('method %s.%s' % (type(recv).__name__, name))

    def dict_get_symbolic(self, d, args, name):
        """d.get(k) / k in d for a concrete dict with str or bytes keys and a
        symbolic key: case split over the keys."""
        st = self.st
        k = args[0]
        for key, val in d.items():
            eq = self.ip.py_eq(k, key)
            if st.branch(B(eq) if not isinstance(eq, bool) else eq, 'dict-key:%r' % (key,)):
                return True if name == '__contains__' else val
        if name == '__contains__':
            return False
        if name == 'get':
            return args[1] if len(args) > 1 else None
        raise Raised(KeyError, ())

    def dict_getitem(self, d, key):
        return self.dict_get_symbolic(d, [key], '__getitem__')

    def setitem(self, obj, key, v):
        if isinstance(obj, SOpaque) and obj.info.get('param'):
            self.st.writes.append((obj.info['param'], 'param', 'setitem'))
        if isinstance(obj, SOpaque) and obj.kind == 'dict' and sym.is_strlike(key):
            from spec import wire
            val = v.t if isinstance(v, SOpaque) and v.t is not None else self.st.fresh('stored_value', sym.ObjS)
            obj.t = wire.dict_set(obj.t, self.st.str_term(key), val)
            return
        if isinstance(obj, dict) and sym.is_strlike(key) and not obj:
            raise OutOfSubset('symbolic key stored into a concrete dict outside a loop cut')
        raise OutOfSubset('item store on %s' % type(obj).__name__)

    # ------------------------------------------------------------ symbolic receivers
    def sym_getattr(self, obj, name, default, has_default):
        if isinstance(obj, (SStr, SBytes)):
            if hasattr(str if isinstance(obj, SStr) else bytes, name):
                return SymMethod(obj, name)
            if has_default:
                return default
            raise Raised(AttributeError, (name,))
        if isinstance(obj, SOpaque):
            h = getattr(self, 'attr_' + obj.kind, None)
            if h is not None:
                return h(obj, name, default, has_default)
            if obj.kind == 'foreign':
                if has_default:
                    return default
                raise Raised(AttributeError, (name,))
            if obj.kind in ('dict', 'list'):
                if hasattr(dict if obj.kind == 'dict' else list, name):
                    return SymMethod(obj, name)
                if has_default:
                    return default
                raise Raised(AttributeError, (name,))
        if isinstance(obj, (SInt, SBool, SFloat)):
            t = {SInt: int, SBool: bool, SFloat: float}[type(obj)]
            if hasattr(t, name):
                return SymMethod(obj, name)
            if has_default:
                return default
            raise Raised(AttributeError, (name,))
        raise OutOfSubset('attribute %s of %s' % (name, type(obj).__name__))

    def sym_method(self, obj, name, args, kwargs):
        st = self.st
        if isinstance(obj, SOpaque) and obj.kind == 'dict' and name == 'items' and not args:
            return SOpaque('items', obj.t, {'dict': obj})
        if isinstance(obj, SOpaque) and obj.kind in ('list', 'dict') and obj.info.get('param') and \
                name in ('append', 'extend', 'insert', 'pop', 'reverse', 'sort', 'clear', 'remove', 'update',
                         'setdefault', 'popitem', '__setitem__', '__delitem__'):
            st.writes.append((obj.info['param'], 'param', name))        # the caller's container is being modified
        if isinstance(obj, SOpaque) and obj.kind == 'list' and name == 'append' and len(args) == 1:
            from spec import wire
            v = args[0]
            val = v.t if isinstance(v, SOpaque) and v.t is not None else st.fresh('appended_value', sym.ObjS)
            obj.t = wire.list_snoc(obj.t, val)
            return None
        if isinstance(obj, SStr):
            if name == 'encode':
                enc = args[0] if args else kwargs.get('encoding', 'utf-8')
                if str(enc).lower().replace('_', '-') not in ('utf-8', 'utf8'):
                    raise OutOfSubset('str.encode(%r)' % (enc,))
                errors = args[1] if len(args) > 1 else kwargs.get('errors', 'strict')
                if errors != 'strict' or len(args) > 2 or set(kwargs) - {'encoding', 'errors'}:
                    raise OutOfSubset('str.encode(errors=%r): only the strict handler is modelled' % (errors,))
                return st.str_encode(obj)
            raise OutOfSubset('str.%s on symbolic str' % name)
        if isinstance(obj, SBytes):
            if name == 'decode':
                enc = args[0] if args else kwargs.get('encoding', 'utf-8')
                if str(enc).lower().replace('_', '-') not in ('utf-8', 'utf8'):
                    raise OutOfSubset('bytes.decode(%r)' % (enc,))
                errors = args[1] if len(args) > 1 else kwargs.get('errors', 'strict')
                if errors != 'strict' or len(args) > 2 or set(kwargs) - {'encoding', 'errors'}:
                    raise OutOfSubset('bytes.decode(errors=%r): only the strict handler is modelled' % (errors,))
                return st.bytes_decode(obj)
            raise OutOfSubset('bytes.%s on symbolic bytes' % name)
        if isinstance(obj, SOpaque):
            h = getattr(self, 'meth_' + obj.kind, None)
            if h is not None:
                return h(obj, name, args, kwargs)
        raise OutOfSubset('method %s on %s' % (name, type(obj).__name__))

    # ------------------------------------------------------------ integers
    def int_binop(self, op, a, b):
        st = self.st
        x, y = I(a), I(b)
        ca = isinstance(a, (int, bool))
        cb = isinstance(b, (int, bool))
        if op is ast.Add:
            return mk_int(x + y)
        if op is ast.Sub:
            return mk_int(x - y)
        if op is ast.Mult:
            if not (ca or cb):
                raise OutOfSubset('non-linear multiplication')
            return mk_int(x * y)
        if op in (ast.FloorDiv, ast.Mod):
            if not cb:
                raise OutOfSubset('division by symbolic value')
            d = int(b)
            if d == 0:
                raise Raised(ZeroDivisionError, ())
            if d < 0:
                raise OutOfSubset('division by negative constant')
            return mk_int(x / y if op is ast.FloorDiv else x % y)  # z3 div/mod: floor for positive divisor
        if op is ast.Div:
            if cb and int(b) == 0:
                raise Raised(ZeroDivisionError, ())
            return SFloat(float_div(x, y))
        if op is ast.Pow:
            raise OutOfSubset('symbolic power')
        if op is ast.LShift:
            if not cb and getattr(st, 'approx_int_ops', False):
                # inside a loop cut: any integer of the same sign and at least the magnitude (over-approximation)
                if st.branch(y < 0, 'lshift:negative-count'):
                    raise Raised(ValueError, ('negative shift count',))
                r = st.fresh_int('shifted')
                st.assume(z3.And(z3.Implies(x >= 0, r >= x), z3.Implies(x < 0, r <= x)))
                return SInt(r)
            if not cb:
                raise OutOfSubset('shift by symbolic amount')
            if int(b) < 0:
                raise Raised(ValueError, ('negative shift count',))
            r = mk_int(x * (2 ** int(b)))
            o = st.get_bits(a)
            if o is not None:
                st.set_bits(r, [z3.BoolVal(False)] * int(b) + o[0], o[1])
            return r
        if op is ast.RShift:
            if not cb:
                raise OutOfSubset('shift by symbolic amount')
            if int(b) < 0:
                raise Raised(ValueError, ('negative shift count',))
            o = st.get_bits(a)
            if o is not None:
                nb = o[0][int(b):] if len(o[0]) > int(b) else []
                r = mk_int(z3.Sum([z3.If(nb[k], 2 ** k, 0) for k in range(len(nb))] + [z3.IntVal(0)]) - z3.If(o[1], 2 ** len(nb), 0))
                return st.set_bits(r, nb, o[1])
            return mk_int(x / z3.IntVal(2 ** int(b)))
        if op in (ast.BitAnd, ast.BitOr, ast.BitXor):
            return self.bitop(op, a, b)
        raise OutOfSubset('int operator %s' % op.__name__)

    def signed_bits(self, v):
        """-> (width w, bits[0..w-1], sign Bool) with v == sum - 2^w*sign."""
        st = self.st
        if isinstance(v, (int, bool)):
            v = int(v)
            w = 8
            while not (-(2 ** w) <= v < 2 ** w):
                w *= 2
            bits = [z3.BoolVal(bool((v >> k) & 1)) for k in range(w)]
            return w, bits, z3.BoolVal(v < 0)
        t = I(v)
        o = st.get_bits(v)
        if o is not None:
            ob, sign = o
            return len(ob), ob, sign
        width = None
        for w in (8, 16, 32, 64):
            if st.must(z3.And(t >= -(2 ** w), t < 2 ** w)):
                width = w
                break
        if width is None:
            if st.branch(z3.And(t >= -(2 ** 64), t < 2 ** 64), 'bitop:in-128-bit-range'):
                width = 64
            else:
                raise OutOfSubset('bit operation on an integer beyond 64 bits')
        key = ('sbits', width, t.get_id())
        if key in st.pack_cache:
            return st.pack_cache[key]
        st.keep.append(t)
        nonneg = st.must(t >= 0)
        bits = [st.fresh_bool('bit') for _ in range(width)]
        sign = z3.BoolVal(False) if nonneg else st.fresh_bool('sign')
        st.assume(t == z3.Sum([z3.If(bits[k], 2 ** k, 0) for k in range(width)])
                  - z3.If(sign, 2 ** width, 0))
        res = (width, bits, sign)
        st.pack_cache[key] = res
        return res

    def low_bits(self, v, w):
        """v == 2^w * h + low with 0 <= low < 2^w (floor semantics: valid for negative v too);
        returns the w Booleans of low, LSB first."""
        st = self.st
        t = I(v)
        key = ('lowbits', w, t.get_id())
        if key in st.pack_cache:
            return st.pack_cache[key]
        st.keep.append(t)
        o = st.get_bits(v)
        if o is not None:
            ob, sign = o
            bits = (ob + [sign] * w)[:w]          # two's complement: sign-extend
            st.pack_cache[key] = bits
            return bits
        bits = [st.fresh_bool('bit') for _ in range(w)]
        low = z3.Sum([z3.If(bits[k], 2 ** k, 0) for k in range(w)])
        if st.must(z3.And(t >= 0, t < 2 ** w)):
            st.assume(t == low)                       # no higher part
        else:
            h = st.fresh_int('high')
            st.assume(t == h * (2 ** w) + low)
        st.pack_cache[key] = bits
        return bits

    def bitop(self, op, a, b):
        if getattr(self.st, 'approx_int_ops', False) and op is ast.BitOr and \
                not isinstance(a, (int, bool)) and not isinstance(b, (int, bool)):
            return SInt(self.st.fresh_int('ored'))      # inside a loop cut: any integer (over-approximation)
        if op is ast.BitAnd:
            for x, m in ((a, b), (b, a)):
                if isinstance(m, int) and not isinstance(m, bool) and m >= 0 and not isinstance(x, (int, bool)):
                    # x & constant mask: only the low bits of x matter
                    w = next(c for c in (16, 32, 64, 128, 1 << 20) if m < 2 ** c)   # standard widths: one decomposition per value
                    bits = self.low_bits(x, w)
                    rb = [bits[k] if (m >> k) & 1 else z3.BoolVal(False) for k in range(w)]
                    r = mk_int(z3.Sum([z3.If(bits[k], 2 ** k, 0) for k in range(w) if (m >> k) & 1] or [z3.IntVal(0)]))
                    return self.st.set_bits(r, rb, z3.BoolVal(False))
        wa, ba, sa = self.signed_bits(a)
        wb, bb, sb = self.signed_bits(b)
        w = max(wa, wb)
        ba = ba + [sa] * (w - wa)
        bb = bb + [sb] * (w - wb)
        f = {ast.BitAnd: z3.And, ast.BitOr: z3.Or, ast.BitXor: z3.Xor}[op]
        rb = [z3.simplify(f(x, y)) for x, y in zip(ba, bb)]
        rs = z3.simplify(f(sa, sb))
        r = mk_int(z3.Sum([z3.If(rb[k], 2 ** k, 0) for k in range(w)] + [z3.IntVal(0)]) - z3.If(rs, 2 ** w, 0))
        return self.st.set_bits(r, rb, rs)

    def other_binop(self, op, a, b):
        if op is ast.Div and isinstance(a, (SInt, SBool)) and isinstance(b, float) and b == int(b) and b > 0:
            return SFloat(float_div(I(a), z3.IntVal(int(b))))       # A3: treated exactly
        if isinstance(a, SFloat) or isinstance(b, SFloat):
            raise OutOfSubset('float arithmetic')
        if isinstance(a, SOpaque) and a.kind == 'decimal' or isinstance(b, SOpaque) and b.kind == 'decimal' \
                or isinstance(a, decimal.Decimal) or isinstance(b, decimal.Decimal):
            return self.dec_binop(op, a, b)
        if (sym.is_intlike(a) or sym.is_strlike(a) or sym.is_byteslike(a) or a is None) and \
           (sym.is_intlike(b) or sym.is_strlike(b) or sym.is_byteslike(b) or b is None):
            if op is ast.Mult and (sym.is_intlike(a) != sym.is_intlike(b)) and a is not None and b is not None:
                raise OutOfSubset('sequence repetition')
            if op is ast.Mod and (sym.is_strlike(a) or sym.is_byteslike(a)):
                raise OutOfSubset('%-formatting')
            raise Raised(TypeError, ('unsupported operand type(s)',))
        raise OutOfSubset('operator %s on %s / %s' % (op.__name__, type(a).__name__, type(b).__name__))

    # ------------------------------------------------------------ struct
    def struct_pack(self, fmt, values):
        st = self.st
        if sym.is_symbolic(fmt):
            raise OutOfSubset('symbolic struct format')
        if not sym.is_symbolic(list(values)):
            try:
                return _struct.pack(fmt, *values)
            except _struct.error as exc:
                raise Raised(_struct.error, exc.args)
            except OverflowError as exc:
                raise Raised(OverflowError, exc.args)
            except Exception as exc:
                raise Raised(type(exc), exc.args)
        items = sym.parse_format(fmt)
        n_vals = sum(1 for c, _, s in items if s is not None)
        if n_vals != len(values):
            raise Raised(_struct.error, ('pack expected %d items' % n_vals,))
        segs = []
        vi = 0
        for code, size, signed in items:
            if signed is None:  # pad byte
                segs.append(0)
                continue
            v = values[vi]
            vi += 1
            if signed in ('f', 'd'):
                segs.extend(self.pack_float(v, signed))
                continue
            if not sym.is_intlike(v):
                # CPython: "required argument is not an integer" (objects with __index__ are A8)
                raise Raised(_struct.error, ('required argument is not an integer',))
            t = I(v)
            lo, hi = (-(2 ** (8 * size - 1)), 2 ** (8 * size - 1) - 1) if signed else (0, 2 ** (8 * size) - 1)
            if isinstance(v, (int, bool)):
                inr = lo <= int(v) <= hi
            else:
                inr = st.branch(z3.And(t >= lo, t <= hi), 'pack:%s-range' % code)
            if not inr:
                raise Raised(_struct.error, ('argument out of range',))
            if isinstance(v, (int, bool)):
                segs.extend(list(int(v).to_bytes(size, 'big', signed=bool(signed))))
            else:
                segs.extend(st.pack_sint(t, size) if signed else st.pack_uint(t, size))
        return st.mk_bytes(segs)

    def pack_float(self, v, kind):
        st = self.st
        if isinstance(v, (SInt, SBool)):
            v = SFloat(int_to_float(I(v)))
        if isinstance(v, SFloat):
            if kind == 'f':
                if not st.branch(f32_fits(v.t), 'pack:f32-fits'):
                    raise Raised(OverflowError, ('float too large to pack with f format',))
                c = st.new_chunk(term=f32_bytes(v.t))
                st.assume(z3.And(c.len == 4, f32_of(c.t) == round32(v.t)))
            else:
                c = st.new_chunk(term=f64_bytes(v.t))
                st.assume(z3.And(c.len == 8, f64_of(c.t) == v.t))
            return [c]
        if sym.is_symbolic(v) or not isinstance(v, (int, float)):
            raise Raised(_struct.error, ('required argument is not a float',))
        try:
            return list(_struct.pack('>' + kind, v))
        except OverflowError as exc:
            raise Raised(OverflowError, exc.args)

    def struct_unpack(self, fmt, data, exact, offset=0):
        st = self.st
        if sym.is_symbolic(fmt):
            raise OutOfSubset('symbolic struct format')
        if not sym.is_byteslike(data):
            raise Raised(TypeError, ("a bytes-like object is required",))
        if not sym.is_symbolic(data) and not sym.is_symbolic(offset):
            try:
                if exact:
                    return _struct.unpack(fmt, data)
                return _struct.unpack_from(fmt, data, offset)
            except _struct.error as exc:
                raise Raised(_struct.error, exc.args)
        items = sym.parse_format(fmt)
        size = sum(s for _, s, _ in items)
        rope = st.to_rope(data)
        segs = st.expand(rope.segs)
        length = st.rope_len_term(SBytes(segs))
        if exact:
            ok = st.branch(length == size, 'unpack:len==%d' % size)
            if not ok:
                raise Raised(_struct.error, ('unpack requires a buffer of %d bytes' % size,))
            atoms, _ = st.take_bytes(segs, size, 'unpack')
        else:
            off = I(offset)
            if not (isinstance(offset, int) and offset >= 0):
                if st.branch(off < 0, 'unpack_from:neg-offset'):
                    # CPython: negative offsets count from the end
                    if st.branch(off + length < 0, 'unpack_from:neg-offset-oob'):
                        raise Raised(_struct.error, ('offset out of range',))
                    off = off + length
            ok = st.branch(length - off >= size, 'unpack_from:len>=%d' % size)
            if not ok:
                raise Raised(_struct.error, ('unpack_from requires a buffer of at least %d bytes' % size,))
            if isinstance(offset, int) and offset == 0:
                right = segs
            else:
                _, right = st.split_at(segs, mk_int(off), 'unpack_from:offset')
            atoms, _ = st.take_bytes(right, size, 'unpack_from')
        out = []
        pos = 0
        for code, sz, signed in items:
            chunk = atoms[pos:pos + sz]
            pos += sz
            if signed is None:
                continue
            if signed in ('f', 'd'):
                out.append(self.unpack_float(chunk, signed))
            else:
                out.append(st.from_bytes(chunk, bool(signed)))
        return tuple(out)

    def unpack_float(self, atoms, kind):
        st = self.st
        if all(isinstance(a, int) for a in atoms):
            return _struct.unpack('>' + kind, bytes(atoms))[0]
        c = st.name_rope(list(atoms), 'fbytes')
        return SFloat((f32_of if kind == 'f' else f64_of)(c.t))

    # ------------------------------------------------------------ floats / decimals / datetimes
    def float_to_int(self, v):
        # A3: int(float_of_seconds(n)) == n (timestamps are exact to the whole second in the ranges of interest)
        t = v.t
        if z3.is_app(t) and t.decl().name() == 'float_of_seconds':
            return mk_int(t.arg(0))
        raise OutOfSubset('int(float)')

    def dec_to_int(self, v):
        """A5: int() of a decimal: the scaled coefficient (exact while it has at most 28 digits), or the integer value."""
        from spec import wire
        st = self.st
        if 'scaled_by' in v.info:
            t, k = v.info['of'], v.info['scaled_by']
            if st.must(I(k) == -wire.dec_exp(t)):
                if st.branch(z3.And(wire.dec_coeff(t) > -10 ** 28, wire.dec_coeff(t) < 10 ** 28), 'decimal:within-context-precision'):
                    return SInt(wire.dec_coeff(t))
                return SInt(st.fresh_int('rounded_coefficient'))
            raise OutOfSubset('int(Decimal.scaleb(k)) with k other than -exponent')
        if v.t is not None:
            wire.dec_facts(st, v.t)
            if not st.branch(wire.dec_finite(v.t), 'decimal:finite'):
                if st.branch(st.fresh_bool('nan'), 'decimal:nan-or-infinity'):
                    raise Raised(ValueError, ('cannot convert NaN to integer',))
                raise Raised(OverflowError, ('cannot convert Infinity to integer',))
            if st.branch(wire.dec_exp(v.t) >= 0, 'decimal:integral'):
                return SInt(wire.dec_intval(v.t))
            return SInt(st.fresh_int('truncated_decimal'))
        raise OutOfSubset('int(Decimal)')

    def dec_new(self, args):
        if not sym.is_symbolic(args):
            try:
                return decimal.Decimal(*args)
            except Exception as exc:
                raise Raised(type(exc), exc.args)
        if len(args) == 1 and isinstance(args[0], (SInt, SBool)):
            from spec import wire
            return SOpaque('decimal', wire.decimal_of(I(args[0]), z3.IntVal(0)), {'unscaled': I(args[0]), 'scale': 0})
        raise OutOfSubset('Decimal(symbolic)')

    def dec_binop(self, op, a, b):
        """A5: exact decimal arithmetic for the one shape the codec uses:
        Decimal(n) * Decimal(10) ** -k  ==  the decimal with unscaled value n and k places
        (exact under the default context for |n| < 10^28, k <= 255)."""
        from spec import wire
        if op is ast.Pow and isinstance(a, decimal.Decimal) and a == 10 and isinstance(b, (SInt,)):
            k = z3.simplify(-b.t)
            return SOpaque('decimal', None, {'pow10neg': k})
        if op is ast.Mult:
            for x, y in ((a, b), (b, a)):
                if isinstance(x, SOpaque) and x.kind == 'decimal' and 'unscaled' in x.info and x.info.get('scale') == 0 \
                        and isinstance(y, SOpaque) and y.kind == 'decimal' and 'pow10neg' in y.info:
                    k = y.info['pow10neg']
                    if not self.st.branch(z3.And(k >= 0, k <= 255), 'decimal:scale-0..255'):
                        raise OutOfSubset('decimal scale outside 0..255')
                    return SOpaque('decimal', wire.decimal_of(x.info['unscaled'], k))
        raise OutOfSubset('Decimal arithmetic')

    # -- Decimal values
    def attr_decimal(self, obj, name, default, has_default):
        return SymMethod(obj, name)

    def meth_decimal(self, obj, name, args, kwargs):
        from spec import wire
        st = self.st
        if name == 'as_tuple' and not args and obj.t is not None:
            wire.dec_facts(st, obj.t)
            return SOpaque('dectuple', obj.t)
        if name == 'scaleb' and len(args) == 1 and is_intlike_(args[0]):
            k = args[0]
            if 'unscaled' in obj.info and obj.info.get('scale') == 0:
                # Decimal(n).scaleb(-k): the decimal with unscaled value n and k places (exact: n < 10^28)
                return SOpaque('decimal', wire.decimal_of(obj.info['unscaled'], z3.simplify(-I(k))),
                               {'unscaled_of': obj.info['unscaled'], 'places': z3.simplify(-I(k))})
            if obj.t is not None:
                return SOpaque('decimal', None, {'of': obj.t, 'scaled_by': k})
        raise OutOfSubset('Decimal.%s' % name)

    def attr_dectuple(self, obj, name, default, has_default):
        from spec import wire
        st = self.st
        if name == 'exponent':
            if st.branch(wire.dec_finite(obj.t), 'decimal:finite'):
                return SInt(wire.dec_exp(obj.t))
            return 'F'          # 'n' / 'N' / 'F': a str for NaN and infinities
        raise OutOfSubset('DecimalTuple.%s' % name)

    def dec_eq(self, a, b):
        """value == Decimal(raw).scaleb(-k) for a finite value with exponent -k: same coefficient (A5)."""
        from spec import wire
        for x, y in ((a, b), (b, a)):
            if isinstance(x, SOpaque) and x.kind == 'decimal' and x.t is not None and 'unscaled_of' not in x.info \
                    and isinstance(y, SOpaque) and 'unscaled_of' in y.info:
                t = x.t
                if self.st.must(z3.And(wire.dec_finite(t), wire.dec_exp(t) == -y.info['places'])):
                    return mk_bool(wire.dec_coeff(t) == y.info['unscaled_of'])
        raise OutOfSubset('Decimal equality')

    def dt_fromtimestamp(self, args, kwargs):
        from spec import wire
        st = self.st
        if not sym.is_symbolic(args) and not sym.is_symbolic(list(kwargs.values())):
            try:
                return datetime.datetime.fromtimestamp(*args, **kwargs)
            except Exception as exc:
                raise Raised(type(exc), exc.args)
        ts = args[0]
        tz = kwargs.get('tz', args[1] if len(args) > 1 else None)
        millis = None
        if isinstance(ts, SFloat) and z3.is_app(ts.t) and ts.t.decl().name() == 'float_div' and \
                z3.is_int_value(ts.t.arg(1)) and ts.t.arg(1).as_long() == 1000:
            millis = ts.t.arg(0)                     # ts / 1000.0 (A3: treated exactly)
        elif not isinstance(ts, (SInt, int)):
            raise OutOfSubset('fromtimestamp of %s' % type(ts).__name__)
        key = millis if millis is not None else I(ts)
        st.assume(z3.Implies(z3.And(key >= 0, key <= 253402300799), wire.dt_representable(key)))
        st.assume(z3.Implies(key > 253402300799999, z3.Not(wire.dt_representable(key))))
        if not st.branch(wire.dt_representable(key), 'fromtimestamp:representable'):
            if st.branch(st.fresh_bool('overflow_error'), 'fromtimestamp:OverflowError-or-ValueError'):
                raise Raised(OverflowError, ('timestamp out of range for platform time_t',))
            raise Raised(ValueError, ('year is out of range',))
        instant = wire.dt_of_millis(key) if millis is not None else wire.dt_of_seconds(key)
        if tz is datetime.timezone.utc:
            return SOpaque('datetime_aware', instant)
        if tz is None:
            # local wall clock: depends on the host time zone
            return SOpaque('datetime_naive', wire.dt_local_wall(instant, LOCAL_OFFSET(key)))
        raise OutOfSubset('fromtimestamp with a tz other than UTC')

    def cal_timegm(self, v):
        from spec import wire
        if not sym.is_symbolic(v):
            try:
                return calendar.timegm(v)
            except Exception as exc:
                raise Raised(type(exc), exc.args)
        if isinstance(v, SOpaque) and v.kind == 'struct_time':
            return SInt(wire.dt_seconds(v.t))         # A5: the fields read as UTC
        raise OutOfSubset('calendar.timegm(symbolic)')

    def time_mktime(self, v):
        from spec import wire
        if isinstance(v, SOpaque) and v.kind == 'struct_time':
            s = wire.dt_seconds(v.t)
            return SFloat(float_of_seconds(s - LOCAL_OFFSET(s)))   # the fields read in the host time zone
        raise OutOfSubset('time.mktime')

    # -- datetime values: attributes and methods
    def attr_datetime_naive(self, obj, name, default, has_default):
        if name == 'tzinfo':
            return None
        return SymMethod(obj, name)

    def attr_datetime_aware(self, obj, name, default, has_default):
        if name == 'tzinfo':
            return SOpaque('tzinfo', obj.t, {'of': obj})
        return SymMethod(obj, name)

    def attr_tzinfo(self, obj, name, default, has_default):
        return SymMethod(obj, name)

    def meth_tzinfo(self, obj, name, args, kwargs):
        if name == 'utcoffset':
            return SOpaque('timedelta', obj.t)           # an aware datetime: never None
        raise OutOfSubset('tzinfo.%s' % name)

    def attr_struct_time(self, obj, name, default, has_default):
        raise OutOfSubset('struct_time.%s' % name)

    def meth_datetime_naive(self, obj, name, args, kwargs):
        return self._dt_method(obj, name, args, kwargs, naive=True)

    def meth_datetime_aware(self, obj, name, args, kwargs):
        return self._dt_method(obj, name, args, kwargs, naive=False)

    def _dt_method(self, obj, name, args, kwargs, naive):
        from spec import wire
        st = self.st
        s = wire.dt_seconds(obj.t)
        if name == 'replace' and not args and set(kwargs) == {'tzinfo'}:
            tz = kwargs['tzinfo']
            if tz is datetime.timezone.utc and naive:
                r = SOpaque('datetime_aware', wire.dt_as_utc(obj.t))
                st.assume(wire.dt_seconds(r.t) == s)     # the wall-clock fields read as UTC: same whole-second count
                return r
            if tz is datetime.timezone.utc and not naive:
                raise OutOfSubset('replace(tzinfo=utc) on an aware datetime (changes the instant)')
            raise OutOfSubset('datetime.replace(tzinfo=%r)' % (tz,))
        if name == 'timestamp' and not args:
            if naive:
                return SFloat(float_of_seconds(s - LOCAL_OFFSET(s)))     # naive: interpreted in the host time zone
            return SFloat(float_of_seconds(s))
        if name == 'utcoffset' and not args:
            return None if naive else SOpaque('timedelta', obj.t)
        if name in ('timetuple',) and not args:
            # wall-clock fields, tzinfo dropped: for an aware value the UTC offset is lost
            r = SOpaque('struct_time', wire.dt_fields(obj.t))
            if naive:
                st.assume(wire.dt_seconds(r.t) == s)
            else:
                st.assume(wire.dt_seconds(r.t) == s + wire.dt_utcoffset(obj.t))
            return r
        if name == 'utctimetuple' and not args:
            r = SOpaque('struct_time', wire.dt_utcfields(obj.t))
            st.assume(wire.dt_seconds(r.t) == s)
            return r
        if name == 'astimezone' and not args:
            return SOpaque('datetime_local', obj.t)      # same instant, host time zone attached
        if name == 'astimezone' and len(args) == 1 and not kwargs and isinstance(args[0], datetime.tzinfo):
            # aware: the same instant in another zone; naive: the wall-clock fields are read in the HOST zone first
            r = SOpaque('datetime_aware', st.fresh('astimezone', wire.Obj))
            st.assume(wire.dt_seconds(r.t) == (s - LOCAL_OFFSET(s) if naive else s))
            if args[0] is datetime.timezone.utc:
                st.assume(wire.dt_utcoffset(r.t) == 0)
            return r
        raise OutOfSubset('datetime.%s' % name)


_PURE_CONCRETE = {
    abs, min, max, sum, divmod, pow, round, ord, chr, hex, oct, bin, range, zip, enumerate,
    list, tuple, dict, set, frozenset, float, complex, id, repr, hash, callable, issubclass, iter, next,
    re.compile, _struct.calcsize,
}
