"""./check replay <file>: re-run the recorded input on the real code (pinned interpreter)."""
import json
import os
import sys

VERIF = os.path.dirname(os.path.dirname(os.path.abspath(__file__)))
sys.path.insert(0, VERIF)
sys.path.insert(0, os.environ.get('PAMQP_REPO', '/repo'))


def main():
    path = sys.argv[1]
    with open(path) as fh:
        d = json.load(fh)
    print('property  :', d.get('property'))
    print('obligation:', d.get('obligation'))
    rp = d.get('replay') or {}
    job = rp.get('job')
    if not job:
        print('no concrete input recorded for this obligation (no-failing-input-found); solver output:')
        print(json.dumps({k: d.get(k) for k in ('verdict', 'detail', 'model')}, indent=1))
        return 1
    from pyvc import replay
    obs = replay.native_calls([job], setup=job.get('setup'))[0]
    print('input     :', json.dumps(rp.get('args')))
    print('expected  :', rp.get('expected'))
    print('observed  :', json.dumps(obs))
    print('recorded  :', json.dumps(rp.get('observed')))
    return 0


if __name__ == '__main__':
    sys.exit(main())
