"""pyvc.loops -- loop annotations (sidecar): index-dependent invariants for
loops over a concrete sequence, executed as cuts: one path per iteration
(from the invariant's state) plus one path for the code after the loop."""
from .sym import OutOfSubset, EngineError


class CutPath(Exception):
    """The path ends at a cut point (its obligations have been recorded)."""


def _check_binds(ann, fr, node):
    """DESIGN 2.7(5): an annotation names locals of the loop it describes.  If the code was edited so
    that they no longer exist (renamed local, different loop), the function is *undecided*, not refuted."""
    import ast as _ast
    missing = [n for n in getattr(ann, 'binds', ()) if n not in fr.locals]
    used = {x.id for x in _ast.walk(node) if isinstance(x, _ast.Name)}
    unused = [n for n in getattr(ann, 'binds', ()) if n not in used and not n.startswith('__')]
    if missing or unused:
        raise OutOfSubset('loop annotation does not bind to this loop any more (locals %s)' % ', '.join(missing + unused))


def _safe_inv(fn, *a):
    """Evaluate an invariant; a failure of the annotation itself makes the obligation undecided, never a crash."""
    from .sym import Infeasible
    try:
        return fn(*a)
    except (Infeasible, CutPath):
        raise
    except OutOfSubset:
        raise
    except Exception as exc:
        raise OutOfSubset('loop annotation not evaluable on this path: %r' % (exc,))


class JoinList:
    """A list of byte strings the executor tracks only by its concatenation
    (the only uses are append and b''.join)."""

    def __init__(self, segs=()):
        self.segs = list(segs)

    def __repr__(self):
        return 'JoinList(%r)' % (self.segs,)


class CutFor:
    """for <target> in <concrete list>: invariant Inv_k before iteration k.

    havoc(ip, fr, k): install a state satisfying exactly Inv_k (the symbolic
        description of 'after k iterations') into the frame / objects.
    inv(ip, fr, k) -> [(label, goal, exact)]: Inv_k evaluated on the *current* state.
    """

    def __init__(self, havoc, inv, doc=''):
        self.havoc = havoc
        self.inv = inv
        self.doc = doc

    def run_for(self, ip, node, fr, iterable):
        from .interp import _Continue, _Break
        st = ip.st
        _check_binds(self, fr, node)
        if isinstance(iterable, dict):
            iterable = list(iterable)
        if not isinstance(iterable, (list, tuple)):
            raise OutOfSubset('cut loop over a non-concrete sequence')
        items = list(iterable)
        n = len(items)
        tag = 'loop@%d' % node.lineno
        for lab, goal, exact in _safe_inv(self.inv, ip, fr, 0):
            st.oblige('%s#initiation:%s' % (tag, lab), goal, exact=exact)
        k = n
        for j in range(n):
            if st.branch(st.fresh_bool('segment'), 'cut:%s:iteration-%d' % (tag, j)):
                k = j
                break
        self.havoc(ip, fr, k)
        if k == n:
            return
        ip.assign(node.target, items[k], fr)
        try:
            ip.exec_block(node.body, fr)
        except _Continue:
            pass
        except _Break:
            raise OutOfSubset('break inside a cut loop')
        for lab, goal, exact in _safe_inv(self.inv, ip, fr, k + 1):
            st.oblige('%s#preservation[%d]:%s' % (tag, k, lab), goal, exact=exact)
        raise CutPath()


class CutWhile:
    """while <test>: the first `unroll` iterations are executed as they are;
    every later iteration is covered by one cut: from an arbitrary state
    satisfying the invariant, one execution of the body re-establishes the
    invariant and strictly decreases the (bounded below) variant.

    havoc(ip, fr): install an arbitrary invariant state (ghost iteration count etc.).
    inv(ip, fr) -> [(label, goal, exact)];  variant(ip, fr) -> int / term.
    """

    def __init__(self, unroll, havoc, inv, variant, doc=''):
        self.unroll = unroll
        self.havoc = havoc
        self.inv = inv
        self.variant = variant
        self.doc = doc

    def run_while(self, ip, node, fr):
        from .interp import _Continue, _Break
        from .sym import I
        st = ip.st
        _check_binds(self, fr, node)
        tag = 'loop@%d' % node.lineno
        for n in range(self.unroll):
            if not st.truth(ip.eval(node.test, fr), '%s#test-%d' % (tag, n)):
                return
            try:
                ip.exec_block(node.body, fr)
            except _Break:
                return
            except _Continue:
                continue
        # the loop may not be entered at all from the state reached so far: then nothing is cut
        t0 = ip.eval(node.test, fr)
        from .sym import SBool, SInt
        if isinstance(t0, SBool):
            if not st.can(t0.t):
                return
        elif isinstance(t0, SInt):
            if not st.can(t0.t != 0):
                return
        elif isinstance(t0, (bool, int)) and not t0:
            return
        for lab, goal, exact in _safe_inv(self.inv, ip, fr):
            st.oblige('%s#initiation:%s' % (tag, lab), goal, exact=exact)
        self.havoc(ip, fr)
        if not st.truth(ip.eval(node.test, fr), '%s#test' % tag):
            return
        v0 = self.variant(ip, fr)
        st.oblige('%s#variant-bounded-below' % tag, I(v0) >= 0)
        try:
            ip.exec_block(node.body, fr)
        except _Break:
            return
        except _Continue:
            pass
        for lab, goal, exact in _safe_inv(self.inv, ip, fr):
            st.oblige('%s#preservation:%s' % (tag, lab), goal, exact=exact)
        st.oblige('%s#variant-decreases' % tag, I(self.variant(ip, fr)) < I(v0))
        raise CutPath()


class CutSeqFor:
    """for <target> in <abstract sequence>: an invariant over the *remaining*
    elements (a ghost suffix `rem`), one cut for an arbitrary iteration
    (rem non-empty: body, then the invariant for tail(rem)) and one for the exit
    (rem empty).  The variant is the length of rem.

    seq_of(ip, iterable) -> Obj term of the whole sequence (None: not applicable, undecided)
    bind(ip, rem) -> value bound to the loop target for the first element of rem
    havoc(ip, fr, rem): install the state the invariant describes for `rem`
    inv(ip, fr, rem) -> [(label, goal, exact)]
    """

    def __init__(self, seq_of, bind, havoc, inv, doc=''):
        self.seq_of = seq_of
        self.bind = bind
        self.havoc = havoc
        self.inv = inv
        self.doc = doc

    def run_for(self, ip, node, fr, iterable):
        import z3
        from .interp import _Continue, _Break
        from .sym import ObjS
        from spec import wire
        st = ip.st
        _check_binds(self, fr, node)
        seq = self.seq_of(ip, iterable)
        if seq is None:
            raise OutOfSubset('loop annotation does not apply to this iterable')
        tag = 'loop@%d' % node.lineno
        wire.seq_facts(st, seq)
        for lab, goal, exact in _safe_inv(self.inv, ip, fr, seq):
            st.oblige('%s#initiation:%s' % (tag, lab), goal, exact=exact)
        rem = st.fresh('remaining', ObjS)
        wire.seq_facts(st, rem)
        if st.branch(st.fresh_bool('segment'), 'cut:%s:some-iteration' % tag):
            st.assume(z3.Not(wire.seq_nil(rem)))
            self.havoc(ip, fr, rem)
            ip.assign(node.target, self.bind(ip, rem), fr)
            try:
                ip.exec_block(node.body, fr)
            except _Continue:
                pass
            except _Break:
                raise OutOfSubset('break inside a cut loop')
            nxt = wire.seq_tail(rem)
            wire.seq_facts(st, nxt)
            for lab, goal, exact in _safe_inv(self.inv, ip, fr, nxt):
                st.oblige('%s#preservation:%s' % (tag, lab), goal, exact=exact)
            st.oblige('%s#variant-decreases' % tag, z3.And(wire.seq_len(nxt) < wire.seq_len(rem), wire.seq_len(rem) >= 0))
            raise CutPath()
        st.assume(wire.seq_nil(rem))
        self.havoc(ip, fr, rem)
