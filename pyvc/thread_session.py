"""Threaded variant of the API session (C16: '... sequentially or from several threads').  Runs under the pinned
interpreter inside a forked child of the replay runner.  The same calls run concurrently in several threads of ONE
process, each thread in its own order, with a very short switch interval; every outcome is reported so that the
driver can compare it with the outcome of the same call in a fresh single-threaded child.  No interleaving is
*explored* - this is a stress run, labelled bounded; a difference is a witness, absence of one proves nothing."""
import importlib
import sys
import threading

from pyvc import values


def _resolve(target):
    parts = target.split('.')
    for i in range(len(parts), 0, -1):
        try:
            obj = importlib.import_module('.'.join(parts[:i]))
        except ImportError:
            continue
        for p in parts[i:]:
            obj = getattr(obj, p)
        return obj
    raise ImportError(target)


def _call(job):
    try:
        fn = _resolve(job['target'])
        args = [values.decode(a) for a in job.get('args', [])]
    except Exception as exc:
        return {'outcome': 'harness-error', 'error': repr(exc)}
    try:
        return {'outcome': 'return', 'value': values.encode(fn(*args))}
    except BaseException as exc:
        return {'outcome': 'raise', 'exc': '%s.%s' % (type(exc).__module__, type(exc).__qualname__),
                'mro': ['%s.%s' % (k.__module__, k.__qualname__) for k in type(exc).__mro__], 'message': str(exc)[:200]}


def run(jobs, orders, rounds=3):
    """jobs: list of job dicts (no 'globals': module state may not be touched by the harness while threads run);
    orders: one list of job indices per thread.  -> {'results': [[(index, outcome), ...] per thread]}
    Everything the harness itself has to do (resolving targets, decoding arguments, encoding results) happens before the
    threads start and after they have finished, so that the threads spend their time inside the library."""
    fns = []
    for j in jobs:
        try:
            fns.append(_resolve(j['target']))
        except Exception:
            fns.append(None)
    plans = []
    for order in orders:
        plan = []
        for _ in range(rounds):
            for i in order:
                try:
                    plan.append((i, [values.decode(a) for a in jobs[i].get('args', [])]))
                except Exception:
                    plan.append((i, None))
        plans.append(plan)
    raw = [[] for _ in orders]
    old = sys.getswitchinterval()
    sys.setswitchinterval(1e-6)
    start = threading.Barrier(len(orders))

    def work(k):
        mine = raw[k]
        start.wait()
        for i, args in plans[k]:
            fn = fns[i]
            if fn is None or args is None:
                mine.append((i, 'harness', None))
                continue
            try:
                mine.append((i, 'return', fn(*args)))
            except BaseException as exc:      # noqa: BLE001 - the class is the observation
                mine.append((i, 'raise', exc))

    threads = [threading.Thread(target=work, args=(k,)) for k in range(len(orders))]
    try:
        for t in threads:
            t.start()
        for t in threads:
            t.join(120)
    finally:
        sys.setswitchinterval(old)
    out = []
    for rows in raw:
        enc = []
        for i, kind, v in rows:
            if kind == 'return':
                try:
                    enc.append([i, {'outcome': 'return', 'value': values.encode(v)}])
                except Exception as exc:
                    enc.append([i, {'outcome': 'harness-error', 'error': repr(exc)}])
            elif kind == 'raise':
                enc.append([i, {'outcome': 'raise', 'exc': '%s.%s' % (type(v).__module__, type(v).__qualname__),
                                'mro': ['%s.%s' % (k.__module__, k.__qualname__) for k in type(v).__mro__], 'message': str(v)[:200]}])
            else:
                enc.append([i, {'outcome': 'harness-error'}])
        out.append(enc)
    return {'results': out, 'unfinished': sum(1 for t in threads if t.is_alive())}


def run_json(jobs_json, orders_json, rounds=2):
    import json
    return json.dumps(run(json.loads(jobs_json), json.loads(orders_json), rounds))
