"""pyvc.values -- JSON descriptors for python values (shared by the checker,
which runs under python3-vt, and the replay runner, which runs under the
pinned /venv/bin/python and must not import z3)."""
import datetime
import decimal
import importlib
import json
import math
import time


class IntSub(int):
    """An instance of 'some subclass of int' (what enum.IntEnum members are) for replays."""


class StrSub(str):
    pass


def encode(v):
    if isinstance(v, IntSub):
        return {'__subclass_of_int__': str(int(v))}
    if isinstance(v, StrSub):
        return {'__subclass_of_str__': str(v)}
    if v is None or isinstance(v, (bool, int, str)):
        if isinstance(v, int) and not isinstance(v, bool) and abs(v) > 2 ** 53:
            return {'__int__': str(v)}
        return v
    if isinstance(v, float):
        return {'__float__': v.hex() if math.isfinite(v) else repr(v)}
    if isinstance(v, (bytes, bytearray)):
        return {'__bytes__': bytes(v).hex(), 'mutable': isinstance(v, bytearray)}
    if isinstance(v, time.struct_time):
        return {'__struct_time__': list(v)}
    if isinstance(v, tuple):
        return {'__tuple__': [encode(x) for x in v]}
    if isinstance(v, list):
        return [encode(x) for x in v]
    if isinstance(v, dict):
        if '__obj__' in v or '__abstract__' in v:
            return v if '__abstract__' in v else {'__obj__': v['__obj__'],
                                                   'attrs': {k: encode(x) for k, x in v['attrs'].items()}}
        return {'__dict__': [[encode(k), encode(x)] for k, x in v.items()]}
    if isinstance(v, decimal.Decimal):
        return {'__decimal__': str(v)}
    if isinstance(v, datetime.datetime):
        off = v.utcoffset()
        return {'__datetime__': [v.year, v.month, v.day, v.hour, v.minute, v.second, v.microsecond],
                'utcoffset_s': None if off is None else off.total_seconds()}
    if isinstance(v, type):
        return {'__type__': '%s.%s' % (v.__module__, v.__qualname__)}
    mod = type(v).__module__
    if mod.startswith('pamqp'):
        attrs = {}
        slots = getattr(type(v), '__slots__', None)
        names = list(slots) if slots else list(getattr(v, '__dict__', {}))
        for n in names:
            if hasattr(v, n):
                attrs[n] = encode(getattr(v, n))
        if not slots:
            for n, x in getattr(v, '__dict__', {}).items():
                attrs[n] = encode(x)
        return {'__obj__': '%s.%s' % (mod, type(v).__qualname__), 'attrs': attrs}
    return {'__repr__': repr(v), 'type': '%s.%s' % (mod, type(v).__qualname__)}


def resolve_class(name):
    parts = name.split('.')
    for i in range(len(parts), 0, -1):
        try:
            obj = importlib.import_module('.'.join(parts[:i]))
        except ImportError:
            continue
        for p in parts[i:]:
            obj = getattr(obj, p)
        return obj
    raise ImportError(name)


class Foreign:
    """A value of a type the codec knows nothing about."""

    def __repr__(self):
        return '<Foreign>'


def decode(d):
    if d is None or isinstance(d, (bool, int, str)):
        return d
    if isinstance(d, list):
        return [decode(x) for x in d]
    if isinstance(d, dict):
        if '__int__' in d:
            return int(d['__int__'])
        if '__subclass_of_int__' in d:
            return IntSub(d['__subclass_of_int__'])
        if '__subclass_of_str__' in d:
            return StrSub(d['__subclass_of_str__'])
        if '__float__' in d:
            s = d['__float__']
            return float.fromhex(s) if s.startswith(('0x', '-0x')) else float(s)
        if '__bytes__' in d:
            b = bytes.fromhex(d['__bytes__'])
            return bytearray(b) if d.get('mutable') else b
        if '__tuple__' in d:
            return tuple(decode(x) for x in d['__tuple__'])
        if '__dict__' in d:
            return {decode(k): decode(x) for k, x in d['__dict__']}
        if '__decimal__' in d:
            return decimal.Decimal(d['__decimal__'])
        if '__struct_time__' in d:
            return time.struct_time(d['__struct_time__'])
        if '__datetime__' in d:
            tz = None
            if d.get('utcoffset_s') is not None:
                tz = datetime.timezone(datetime.timedelta(seconds=d['utcoffset_s']))
            return datetime.datetime(*d['__datetime__'], tzinfo=tz)
        if '__type__' in d:
            return resolve_class(d['__type__'])
        if '__foreign__' in d:
            return Foreign()
        if '__obj__' in d:
            cls = resolve_class(d['__obj__'])
            obj = cls.__new__(cls)
            for k, x in d.get('attrs', {}).items():
                setattr(obj, k, decode(x))
            return obj
        if '__repr__' in d:
            return d
        if '__abstract__' in d:
            return d
    raise ValueError('cannot decode %r' % (d,))


def dumps(v):
    return json.dumps(encode(v), ensure_ascii=True, sort_keys=True)
