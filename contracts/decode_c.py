"""Sidecar contracts for pamqp/decode.py.

Every decoder gets a *total* contract over an arbitrary byte string: exact
(consumed, value) when enough octets are present, the exact exception class
otherwise, nothing else (C05, C08, C09)."""
import struct

import z3

from pyvc import sym
from pyvc.contract import Contract, Case, T, TSpec
from pyvc.dsl import conj, disj, neg, in_range, is_int, eq, le, lt
from pyvc.sym import I, B, SBytes, SObj, SInt, SOpaque, SFloat, mk_int, mk_bool, State
from pyvc import lib
from spec import wire

DEC = 'pamqp.decode.'


def weakest(raises):
    """(consumed >= 0, any value) or one of `raises`: subsumes every clause of a decoder contract."""
    def havoc(c):
        n = c.st.fresh_int('consumed')
        c.st.assume(n >= 0)
        return (SInt(n), SOpaque('foreign', c.st.fresh('garbage', sym.ObjS)))
    return Case('weakest', havoc=havoc, may_raise=raises, garbles=True)


def fixed(name, width, read, doc=''):
    def ok(c):
        return wire.peek(c.st, c.value, width) is not None

    return Contract(DEC + name, [('value', T.bytes)], cases=[
        Case('enough-octets', when=ok, returns=lambda c: (width, read(c.st, wire.peek(c.st, c.value, width)))),
        Case('too-short', when=lambda c: not ok(c), raises=struct.error),
    ], doc=doc or 'C05/C09: %d octet(s), struct.error when fewer are present' % width, fallback=weakest((struct.error,)))


def r_uint(st, atoms):
    return st.from_bytes(list(atoms), False)


def r_sint(st, atoms):
    return st.from_bytes(list(atoms), True)


def r_bool(st, atoms):
    a = atoms[0]
    return (a != 0) if isinstance(a, int) else mk_bool(I(a) != 0)


def r_f32(st, atoms):
    if all(isinstance(a, int) for a in atoms):
        return struct.unpack('>f', bytes(atoms))[0]
    return SFloat(lib.f32_of(st.name_rope(list(atoms), 'fbytes').t))


def r_f64(st, atoms):
    if all(isinstance(a, int) for a in atoms):
        return struct.unpack('>d', bytes(atoms))[0]
    return SFloat(lib.f64_of(st.name_rope(list(atoms), 'fbytes').t))


def bit_contract():
    def ok(c):
        return wire.peek(c.st, c.value, 1) is not None

    def out(c):
        a = wire.peek(c.st, c.value, 1)[0]
        pos = c.position
        if isinstance(a, int):
            return (0, bool(a & (1 << pos)))
        bits = c.st.bits_of(a, 8)
        return (0, mk_bool(bits[pos]))

    return Contract(DEC + 'bit', [('value', T.bytes), ('position', TSpec([('bit%d' % k, (lambda k: lambda st, n: k)(k)) for k in range(8)]))],
                    cases=[Case('bit-of-first-octet', when=ok, returns=out),
                           Case('empty', when=lambda c: not ok(c), raises=struct.error)],
                    fallback=weakest((struct.error,)),
                    doc='C01/C05: bit `position` (LSB = 0) of the first octet; consumes nothing')


def length_prefixed(name, prefix, make, doc=''):
    """byte_array / long_str / short_str: length prefix then that many octets
    (Python slicing semantics when fewer are present, as the code has)."""
    def hdr(c):
        return wire.peek(c.st, c.value, prefix)

    def body(c):
        n = State.unpack_uint(hdr(c))
        return n, wire.sub(c.st, c.value, prefix, mk_int(I(n) + prefix))

    cases = make(hdr, body)
    cases.append(Case('too-short', when=lambda c: hdr(c) is None, raises=struct.error))
    return Contract(DEC + name, [('value', T.bytes)], cases=cases, doc=doc,
                    fallback=weakest((struct.error, UnicodeDecodeError)))


def byte_array_cases(hdr, body):
    def out(c):
        n, b = body(c)
        return (mk_int(I(n) + 4), c.st.mk_bytes(c.st.to_rope(b).segs, True))
    return [Case('length-prefixed', when=lambda c: hdr(c) is not None, returns=out)]


def long_str_cases(hdr, body):
    def valid(c):
        if hdr(c) is None:
            return False
        return wire.utf8_ok(c.st, body(c)[1])

    def invalid(c):
        if hdr(c) is None:
            return False
        return neg(wire.utf8_ok(c.st, body(c)[1]))

    def out_str(c):
        n, b = body(c)
        return (mk_int(I(n) + 4), wire.utf8_str(c.st, b))

    def out_raw(c):
        n, b = body(c)
        return (mk_int(I(n) + 4), b)

    return [Case('utf-8-text', when=valid, returns=out_str),
            Case('not-utf-8-returned-as-raw-bytes', when=invalid, returns=out_raw)]


def short_str_cases(hdr, body):
    def valid(c):
        if hdr(c) is None:
            return False
        return wire.utf8_ok(c.st, body(c)[1])

    def invalid(c):
        if hdr(c) is None:
            return False
        return neg(wire.utf8_ok(c.st, body(c)[1]))

    def out_str(c):
        n, b = body(c)
        return (mk_int(I(n) + 1), wire.utf8_str(c.st, b))

    return [Case('utf-8-text', when=valid, returns=out_str),
            Case('not-utf-8', when=invalid, raises=UnicodeDecodeError)]


# ---------------------------------------------------------------- abstract (assumed for now) contracts
RAISES_DECODE = (struct.error, ValueError, OverflowError)   # UnicodeDecodeError is a ValueError


def table_contract():
    """decode.field_table as its callers see it: the table occupies 4 + L octets
    (L from its length prefix); if those octets are a grammar-valid table the
    result is the dict they denote.  wf_table / dec_table are opaque here and
    unfolded where the table decoder itself is verified."""
    def parsed(c):
        return wire.parse_table(c.st, c.value)

    def good(c):
        r = parsed(c)
        return False if r is None else r[2]

    def out(c):
        total, value, cond = parsed(c)
        return (total, value)

    def havoc(c):
        n = c.st.fresh_int('consumed')
        c.st.assume(n >= 0)
        return (SInt(n), SOpaque('dict', c.st.fresh('decoded_dict', sym.ObjS)))

    return Contract(DEC + 'field_table', [('value', T.bytes)], cases=[
        Case('grammar-valid-table', when=good, returns=out),
        Case('anything-else', when=lambda c: neg(good(c)), havoc=havoc, garbles=True,
             post=lambda c, r: isinstance(r, tuple) and len(r) == 2 and is_int(r[0]), may_raise=RAISES_DECODE),
    ], trusted=True, name=DEC + 'field_table(abstract)', fallback=weakest(RAISES_DECODE),
        doc='abstract view for callers (the decoder itself is verified against the table grammar separately)')


def timestamp_contract():
    def ok(c):
        return wire.peek(c.st, c.value, 8) is not None

    def ts(c):
        return State.unpack_uint(wire.peek(c.st, c.value, 8))

    def rep(c):
        t = ts(c)
        if isinstance(t, int):       # concrete (replay / bounded stand-in): seconds always fit, milliseconds up to the year 9999
            return t <= 253402300799999
        c.st.assume(z3.Implies(I(t) > 253402300799999, z3.Not(wire.dt_representable(I(t)))))
        return wire.dt_representable(I(t))

    def out(c):
        raw = ts(c)
        if isinstance(raw, int):      # concrete (replay / bounded stand-in): the library function itself is the model (A5)
            import datetime as _dt
            return (8, _dt.datetime.fromtimestamp(raw if raw <= 0xFFFFFFFF else raw / 1000.0, tz=_dt.timezone.utc))
        t = I(raw)
        return (8, SOpaque('datetime_aware', z3.If(t <= 0xFFFFFFFF, wire.dt_of_seconds(t), wire.dt_of_millis(t))))

    return Contract(DEC + 'timestamp', [('value', T.bytes)], cases=[
        Case('representable', when=lambda c: ok(c) and rep(c), returns=out),
        Case('beyond-datetime-range', when=lambda c: ok(c) and neg(rep(c)), raises=(ValueError, OverflowError)),
        Case('too-short', when=lambda c: not ok(c), raises=struct.error),
    ], doc='C05/C15: seconds up to 0xFFFFFFFF, milliseconds above; a UTC-aware datetime; refused when not representable')


def decimal_contract():
    def ok(c):
        return wire.peek(c.st, c.value, 5) is not None

    def out(c):
        a = wire.peek(c.st, c.value, 5)
        return (5, wire.mk_decimal(State.unpack_sint(a[1:5]), State.unpack_uint(a[0:1])))

    return Contract(DEC + 'decimal', [('value', T.bytes)], cases=[
        Case('five-octets', when=ok, returns=out),
        Case('too-short', when=lambda c: not ok(c), raises=struct.error),
    ], doc='C05: scale octet + signed 32-bit unscaled value')


def register(reg):
    reg.add(bit_contract())
    reg.add(fixed('boolean', 1, r_bool))
    reg.add(fixed('octet', 1, r_uint))
    reg.add(fixed('short_short_int', 1, r_sint))
    reg.add(fixed('short_short_uint', 1, r_uint))
    reg.add(fixed('short_int', 2, r_sint))
    reg.add(fixed('short_uint', 2, r_uint))
    reg.add(fixed('long_int', 4, r_sint))
    reg.add(fixed('long_uint', 4, r_uint))
    reg.add(fixed('long_long_int', 8, r_sint))
    reg.add(fixed('floating_point', 4, r_f32))
    reg.add(fixed('double', 8, r_f64))
    reg.add(length_prefixed('byte_array', 4, byte_array_cases))
    reg.add(length_prefixed('long_str', 4, long_str_cases))
    reg.add(length_prefixed('short_str', 1, short_str_cases))
    reg.add(Contract(DEC + 'void', [('_', T.bytes | T.none)], cases=[Case('nothing', returns=lambda c: (0, None))]))
    reg.add(timestamp_contract())
    reg.add(decimal_contract())
