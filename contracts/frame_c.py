"""Sidecar contracts for pamqp/frame.py, header.ProtocolHeader,
heartbeat.Heartbeat and body.ContentBody.

frame.unmarshal's contract is *total*: every byte string falls into exactly
one case.  The cases are transcribed from C06/C07/C09/C18/C20: a result is
only ever produced from the frame's own 7-octet header, the last consumed
octet is the frame-end octet, everything else is UnmarshalingException."""
import struct

import z3

from pyvc import sym
from pyvc.contract import Contract, Case, T, TSpec
from pyvc.dsl import conj, disj, neg, in_range, is_int, eq, le, lt
from pyvc.sym import I, B, SBytes, SObj, SInt, mk_int
from spec import wire

FRM = 'pamqp.frame.'


def _classes():
    from pamqp import base, body, header, heartbeat, exceptions
    return base, body, header, heartbeat, exceptions


def octets(*vals):
    return conj(*[in_range(v, 0, 255) if is_int(v) else False for v in vals])


# ---------------------------------------------------------------- object makers
def mk_obj(cls_path, attr_specs, provenance='param'):
    """TSpec building `self`: an instance of the real class with symbolic attributes."""
    from pyvc.values import resolve_class

    def mk(st, name):
        cls = resolve_class(cls_path)
        attrs = {}
        for an, spec in attr_specs.items():
            lab, maker = spec.instances()[0][:2]
            attrs[an] = maker(st, '%s_%s' % (name, an))
        return SObj(cls, attrs, provenance=provenance, label=name)

    def sampler(rng, n):
        return _obj_samples(cls_path, {an: spec.instances()[0][0] for an, spec in attr_specs.items()}, rng, n)
    return TSpec([(cls_path.rsplit('.', 1)[-1], mk, sampler)])


def _obj_samples(cls_path, attr_labels, rng, n):
    """Concrete descriptors of objects for the bounded stand-in."""
    from pyvc.replay import sample_values
    pools = {an: sample_values(lab, rng, n) for an, lab in attr_labels.items()}
    if any(not p for p in pools.values()):
        return []
    out = []
    longest = max([len(p) for p in pools.values()] + [1])
    for i in range(min(longest, 3 * n + 40)):
        out.append({'__obj__': cls_path, 'attrs': {an: (p[i] if i < len(p) else rng.choice(p)) for an, p in pools.items()}})
    return out


def product_obj(cls_path, attr_specs, provenance='param'):
    """Like mk_obj but one instance per combination of the attribute type classes."""
    import itertools
    from pyvc.values import resolve_class
    names = list(attr_specs)
    makers = []
    for combo in itertools.product(*[attr_specs[n].instances() for n in names]):
        label = cls_path.rsplit('.', 1)[-1] + '(' + ','.join(c[0] for c in combo) + ')'

        def mk(st, name, combo=combo):
            cls = resolve_class(cls_path)
            return SObj(cls, {n: c[1](st, '%s_%s' % (name, n)) for n, c in zip(names, combo)},
                        provenance=provenance, label=name)

        def sampler(rng, n, combo=combo):
            return _obj_samples(cls_path, {an: c[0] for an, c in zip(names, combo)}, rng, n)
        makers.append((label, mk, sampler))
    return TSpec(makers)


# ---------------------------------------------------------------- frame_parts (C20)
def frame_parts_contract():
    def hdr(c):
        return wire.peek(c.st, c.data, 7)

    def ok(c):
        return hdr(c) is not None

    def out(c):
        a = hdr(c)
        return (wire.uint(a[0:1]), wire.uint(a[1:3]), wire.uint(a[3:7]))

    return Contract(FRM + 'frame_parts', [('data', T.bytes | T.bytearray)], cases=[
        Case('at-least-7-octets', when=ok, returns=out),
        Case('shorter', when=lambda c: not ok(c), returns=lambda c: (0, 0, None)),
    ], doc='C20: unsigned big-endian type, channel, size from the first 7 octets; (0, 0, None) otherwise')


# ---------------------------------------------------------------- _marshal and friends
def marshal_low_contract():
    def octets(c):
        return sym.is_byteslike(c.payload)

    def ok(c):
        if not (octets(c) and is_int(c.frame_type) and is_int(c.channel_id)):
            return False
        return conj(in_range(c.frame_type, 0, 255), in_range(c.channel_id, 0, 65535),
                    lt(wire.blen(c.st, c.payload), 2 ** 32))

    def bad(c):
        if not octets(c):
            return False
        if not (is_int(c.frame_type) and is_int(c.channel_id)):
            return True
        return neg(ok(c))

    return Contract(FRM + '_marshal', [('frame_type', T.int), ('channel_id', T.int | T.bool | T.none | T.str),
                                       ('payload', T.bytes | T.bytearray | T.str | T.none | T.int)], cases=[
        Case('frame', when=ok, returns=lambda c: wire.frame(c.st, c.frame_type, c.channel_id, c.payload)),
        Case('refused', when=bad, raises=struct.error),
        Case('payload-is-not-octets', when=lambda c: not octets(c), raises=(TypeError, struct.error)),
    ], doc='C04/C20: general frame format; out-of-range type/channel/size refused with struct.error; a payload that is not '
           'a byte string (text, None, a number) is never framed')


def body_self(value_spec=T.bytes):
    return product_obj('pamqp.body.ContentBody', {'value': value_spec})


def content_body_contracts():
    base, body, header, heartbeat, exceptions = _classes()
    out = []

    def set_value(attr_from):
        def eff(c):
            c.self.attrs['value'] = getattr(c, attr_from)
            c.st.writes.append((c.self.label, c.self.provenance, 'value'))
        return eff

    def stored(attr_from):
        def post(c, res):
            from pyvc.contract import values_equal
            if res is not None or 'value' not in c.self.attrs:
                return False
            return values_equal(c.st, c.self.attrs['value'], getattr(c, attr_from))
        return post

    def fresh_self(st, name):
        return SObj(body.ContentBody, {}, provenance='param', label=name)

    out.append(Contract('pamqp.body.ContentBody.__init__',
                        [('self', TSpec([('ContentBody', fresh_self)])), ('value', T.bytes | T.bytearray | T.none | T.str)],
                        cases=[Case('stores', post=stored('value'), effects=set_value('value'))], pure=False))
    out.append(Contract('pamqp.body.ContentBody.unmarshal',
                        [('self', body_self()), ('data', T.bytes)],
                        cases=[Case('stores', post=stored('data'), effects=set_value('data'))], pure=False))
    out.append(Contract('pamqp.body.ContentBody.marshal', [('self', body_self(T.bytes | T.bytearray | T.none))],
                        cases=[Case('identity', returns=lambda c: c.self.attrs['value'])]))

    def length(c):
        v = c.self.attrs['value']
        return 0 if v is None else wire.blen(c.st, v)
    out.append(Contract('pamqp.body.ContentBody.__len__', [('self', body_self(T.bytes | T.bytearray | T.none))],
                        cases=[Case('byte-length', returns=length)],
                        doc='C18: the length reported by a body object is its byte length'))

    # _marshal_content_body_frame(value, channel_id)
    def okb(c):
        v = c.value.attrs['value']
        if not sym.is_byteslike(v) or not is_int(c.channel_id):
            return False
        return conj(in_range(c.channel_id, 0, 65535), lt(wire.blen(c.st, v), 2 ** 32))

    def is_octets(c):
        return sym.is_byteslike(c.value.attrs['value'])

    out.append(Contract(FRM + '_marshal_content_body_frame',
                        [('value', body_self(T.bytes | T.bytearray | T.str | T.none)), ('channel_id', T.int)],
                        cases=[Case('frame', when=okb, returns=lambda c: wire.frame(c.st, 3, c.channel_id, c.value.attrs['value'])),
                               Case('refused', when=lambda c: is_octets(c) and neg(okb(c)), raises=struct.error),
                               Case('body-is-not-octets', when=lambda c: not is_octets(c), raises=(TypeError, struct.error))]))

    # _unmarshal_body_frame(frame_data)
    out.append(Contract(FRM + '_unmarshal_body_frame', [('frame_data', T.bytes)],
                        cases=[Case('body', returns=lambda c: SObj(body.ContentBody, {'value': c.frame_data}))]))
    return out


def protocol_header_contracts():
    base, body, header, heartbeat, exceptions = _classes()
    out = []
    PH = 'pamqp.header.ProtocolHeader'
    three = {'major_version': T.int, 'minor_version': T.int, 'revision': T.int}

    def ver(c):
        a = c.self.attrs
        return a['major_version'], a['minor_version'], a['revision']

    out.append(Contract(PH + '.marshal', [('self', mk_obj(PH, three))], cases=[
        Case('octets', when=lambda c: octets(*ver(c)), returns=lambda c: wire.protocol_header(c.st, *ver(c))),
        Case('refused', when=lambda c: neg(octets(*ver(c))), raises=struct.error),
    ], doc="C18: 'AMQP', a zero octet and the three version octets"))

    def um_ok(c):
        return wire.peek(c.st, c.data, 8) is not None

    def um_eff(c):
        a = wire.peek(c.st, c.data, 8)
        for n, v in zip(('major_version', 'minor_version', 'revision'), a[5:8]):
            c.self.attrs[n] = wire.uint([v])
            c.st.writes.append((c.self.label, c.self.provenance, n))

    def um_post(c, res):
        from pyvc.contract import values_equal
        a = wire.peek(c.st, c.data, 8)
        got = [c.self.attrs.get(n) for n in ('major_version', 'minor_version', 'revision')]
        if any(g is None for g in got):
            return False
        return conj(eq(res, 8) if is_int(res) else False, *[eq(g, wire.uint([v])) for g, v in zip(got, a[5:8])])

    out.append(Contract(PH + '.unmarshal', [('self', mk_obj(PH, three)), ('data', T.bytes)], cases=[
        Case('eight-octets', when=um_ok, returns=lambda c: 8, post=um_post, effects=um_eff),
        Case('short', when=lambda c: not um_ok(c), raises=ValueError),
    ], pure=False))

    def init_eff(c):
        for n in ('major_version', 'minor_version', 'revision'):
            c.self.attrs[n] = getattr(c, n)

    def init_post(c, res):
        from pyvc.contract import values_equal
        ts = []
        for n in ('major_version', 'minor_version', 'revision'):
            if n not in c.self.attrs:
                return False
            t, _ = values_equal(c.st, c.self.attrs[n], getattr(c, n))
            ts.append(t)
        return conj(*ts)

    def fresh_self(st, name):
        return SObj(header.ProtocolHeader, {}, provenance='param', label=name)

    out.append(Contract(PH + '.__init__', [('self', TSpec([('ProtocolHeader', fresh_self)])),
                                           ('major_version', T.int), ('minor_version', T.int), ('revision', T.int)],
                        cases=[Case('stores', post=init_post, effects=init_eff)], pure=False))

    # _unmarshal_protocol_header_frame(data_in)
    def amqp(c):
        a = wire.peek(c.st, c.data_in, 4)
        return False if a is None else wire.atoms_eq(a, b'AMQP')

    def full(c):
        return wire.peek(c.st, c.data_in, 8) is not None

    def ph_obj(c):
        a = wire.peek(c.st, c.data_in, 8)
        return SObj(header.ProtocolHeader, {'major_version': wire.uint(a[5:6]), 'minor_version': wire.uint(a[6:7]),
                                            'revision': wire.uint(a[7:8])})

    out.append(Contract(FRM + '_unmarshal_protocol_header_frame', [('data_in', T.bytes)], cases=[
        Case('not-a-protocol-header', when=lambda c: neg(amqp(c)), returns=lambda c: None),
        Case('protocol-header', when=lambda c: conj(amqp(c), full(c)), returns=ph_obj),
        Case('truncated', when=lambda c: conj(amqp(c), not full(c)), raises=ValueError),
    ]))
    return out


def heartbeat_contracts():
    base, body, header, heartbeat, exceptions = _classes()
    return [Contract('pamqp.heartbeat.Heartbeat.marshal', [('cls', T.const(heartbeat.Heartbeat, 'Heartbeat'))],
                     cases=[Case('fixed-frame', returns=lambda c: wire.HEARTBEAT_FRAME)],
                     doc='C18: the fixed 8-octet heartbeat frame')]


# ---------------------------------------------------------------- frame.unmarshal: total contract
def unmarshal_contract():
    base, body, header, heartbeat, exceptions = _classes()
    UE = exceptions.UnmarshalingException

    class View:
        """Lazily computed facts about data_in (may branch on lengths)."""

        def __init__(self, c):
            st, d = c.st, c.data_in
            self.st, self.d = st, d
            a4 = wire.peek(st, d, 4)
            self.amqp = False if a4 is None else wire.atoms_eq(a4, b'AMQP')
            self.len = wire.blen(st, d)
            self.h = wire.peek(st, d, 7)
            if self.h is not None:
                self.type = wire.uint(self.h[0:1])
                self.ch = wire.uint(self.h[1:3])
                self.size = wire.uint(self.h[3:7])
            self.a8 = wire.peek(st, d, 8)

        def complete(self):
            """size > 0, whole frame present, last octet is the frame end."""
            if self.h is None:
                return False
            if not self.st.branch(B(conj(lt(0, self.size), le(I(self.size) + 8, self.len))), 'spec:whole-frame-present'):
                return False
            end = wire.byte_at(self.st, self.d, mk_int(I(self.size) + 7))
            return eq(end, wire.FRAME_END)

    def case(name, when, **kw):
        return Case(name, when=lambda c: when(View(c)), **kw)

    def w_ph(v):
        return conj(v.amqp, v.a8 is not None)

    def w_ph_short(v):
        return conj(v.amqp, v.a8 is None)

    def w_short(v):
        return conj(neg(v.amqp), v.h is None)

    def is_hb(v):
        return conj(eq(v.type, 8), eq(v.size, 0))

    def w_hb(v):
        if v.h is None or v.a8 is None:
            return False
        return conj(neg(v.amqp), is_hb(v), eq(wire.uint(v.a8[7:8]), wire.FRAME_END))

    def w_hb_bad(v):
        if v.h is None:
            return False
        if v.a8 is None:
            return conj(neg(v.amqp), is_hb(v))
        return conj(neg(v.amqp), is_hb(v), neg(eq(wire.uint(v.a8[7:8]), wire.FRAME_END)))

    def w_zero(v):
        if v.h is None:
            return False
        return conj(neg(v.amqp), eq(v.size, 0), neg(eq(v.type, 8)))

    def w_incomplete(v):
        if v.h is None:
            return False
        return conj(neg(v.amqp), lt(0, v.size), lt(v.len, I(v.size) + 8))

    def w_bad_end(v):
        if v.h is None:
            return False
        if not v.st.branch(B(conj(neg(v.amqp), lt(0, v.size), le(I(v.size) + 8, v.len))), 'spec:whole-frame-present'):
            return False
        end = wire.byte_at(v.st, v.d, mk_int(I(v.size) + 7))
        return neg(eq(end, wire.FRAME_END))

    def w_kind(t):
        def w(v):
            if v.h is None:
                return False
            if not v.st.branch(B(conj(neg(v.amqp), eq(v.type, t))), 'spec:type-%d' % t):
                return False
            return v.complete()
        return w

    def w_unknown(v):
        if v.h is None:
            return False
        if not v.st.branch(B(conj(neg(v.amqp), neg(in_range(v.type, 1, 3)), neg(is_hb(v)))), 'spec:unknown-type'):
            return False
        return v.complete()

    def r_ph(c):
        a = wire.peek(c.st, c.data_in, 8)
        return (8, 0, SObj(header.ProtocolHeader, {'major_version': wire.uint(a[5:6]), 'minor_version': wire.uint(a[6:7]),
                                                   'revision': wire.uint(a[7:8])}))

    def r_hb(c):
        v = View(c)
        return (8, v.ch, SObj(heartbeat.Heartbeat, {}))

    def r_body(c):
        v = View(c)
        n = mk_int(I(v.size) + 8)
        return (n, v.ch, SObj(body.ContentBody, {'value': wire.sub(c.st, c.data_in, 7, mk_int(I(v.size) + 7))}))

    def p_kind(cls):
        def post(c, res):
            v = View(c)
            if not (isinstance(res, tuple) and len(res) == 3):
                return False
            n, ch, obj = res
            if not (is_int(n) and is_int(ch) and isinstance(obj, SObj) and issubclass(obj.cls, cls)):
                return False
            return conj(eq(n, I(v.size) + 8), eq(ch, v.ch))
        return post

    def h_kind(cls):
        def havoc(c):
            v = View(c)
            return (mk_int(I(v.size) + 8), v.ch, SObj(cls, {}, provenance='fresh'))
        return havoc

    cases = [
        case('protocol-header', w_ph, returns=r_ph, fresh_result=True),
        case('protocol-header-truncated', w_ph_short, raises=UE),
        case('shorter-than-a-frame-header', w_short, raises=UE),
        case('heartbeat', w_hb, returns=r_hb, fresh_result=True),
        case('heartbeat-incomplete-or-bad-end', w_hb_bad, raises=UE),
        case('zero-size', w_zero, raises=UE),
        case('incomplete', w_incomplete, raises=UE),
        case('bad-frame-end', w_bad_end, raises=UE),
        case('body', w_kind(3), returns=r_body, fresh_result=True),
        case('method', w_kind(1), post=p_kind(base.Frame), havoc=h_kind(base.Frame), may_raise=(UE,)),
        case('content-header', w_kind(2), post=p_kind(header.ContentHeader), havoc=h_kind(header.ContentHeader), may_raise=(UE,)),
        case('unknown-type', w_unknown, raises=UE),
    ]
    return Contract(FRM + 'unmarshal', [('data_in', T.bytes)], cases=cases,
                    views={FRM + '_unmarshal_method_frame': 't', FRM + '_unmarshal_header_frame': 't'},
                    doc='C06/C07/C09/C18/C20: total contract over arbitrary byte strings')


def unmarshal_payload_contracts_assumed():
    """(t) contracts of the two payload decoders, used by frame.unmarshal."""
    base, body, header, heartbeat, exceptions = _classes()
    UE = exceptions.UnmarshalingException
    out = []
    out.append(Contract(FRM + '_unmarshal_method_frame', [('frame_data', T.bytes)], cases=[
        Case('a-method-or-UnmarshalingException', post=lambda c, r: isinstance(r, SObj) and issubclass(r.cls, base.Frame),
             havoc=lambda c: SObj(base.Frame, {}, provenance='fresh'), may_raise=(UE,))], name=FRM + '_unmarshal_method_frame(t)',
        trusted=True, view='t',
        established_by=lambda reg: [c.name for c in reg.all if c.name.startswith(FRM + '_unmarshal_method_frame[')]))
    out.append(Contract(FRM + '_unmarshal_header_frame', [('frame_data', T.bytes)], cases=[
        Case('a-content-header-or-UnmarshalingException',
             post=lambda c, r: isinstance(r, SObj) and issubclass(r.cls, header.ContentHeader),
             havoc=lambda c: SObj(header.ContentHeader, {}, provenance='fresh'), may_raise=(UE,))],
        name=FRM + '_unmarshal_header_frame(t)', trusted=True, view='t',
        established_by=lambda reg: [FRM + '_unmarshal_header_frame']))
    return out


def register(reg):
    reg.add(frame_parts_contract())
    reg.add(marshal_low_contract())
    for c in content_body_contracts() + protocol_header_contracts() + heartbeat_contracts():
        reg.add(c)
    for c in unmarshal_payload_contracts_assumed():
        reg.add(c)
    reg.add(unmarshal_contract())
    reg.add(unmarshal_envelope_contract())
    reg.add(frame_marshal_contract())
    for c in lemma_contracts() + c07_c20_lemma_contracts():
        reg.add(c)


# ---------------------------------------------------------------- frame.marshal (dispatch)
def frame_marshal_contract():
    base, body, header, heartbeat, exceptions = _classes()
    PH = 'pamqp.header.ProtocolHeader'
    three = {'major_version': T.int, 'minor_version': T.int, 'revision': T.int}
    fv = (mk_obj(PH, three) | body_self(T.bytes | T.bytearray) | mk_obj('pamqp.heartbeat.Heartbeat', {})
          | T.int | T.str | T.none | T.bytes | T.foreign)

    def kind(c):
        v = c.frame_value
        if isinstance(v, SObj):
            for k, cls in (('ph', header.ProtocolHeader), ('method', base.Frame), ('header', header.ContentHeader),
                           ('body', body.ContentBody), ('heartbeat', heartbeat.Heartbeat)):
                if issubclass(v.cls, cls):
                    return k
        return 'other'

    def ver(c):
        a = c.frame_value.attrs
        return a['major_version'], a['minor_version'], a['revision']

    def body_ok(c):
        v = c.frame_value.attrs['value']
        if not sym.is_byteslike(v) or not is_int(c.channel_id):
            return False
        return conj(in_range(c.channel_id, 0, 65535), lt(wire.blen(c.st, v), 2 ** 32))

    cases = [
        Case('protocol-header', when=lambda c: kind(c) == 'ph' and octets(*ver(c)),
             returns=lambda c: wire.protocol_header(c.st, *ver(c))),
        Case('protocol-header-refused', when=lambda c: kind(c) == 'ph' and neg(octets(*ver(c))), raises=struct.error),
        Case('body', when=lambda c: kind(c) == 'body' and body_ok(c),
             returns=lambda c: wire.frame(c.st, 3, c.channel_id, c.frame_value.attrs['value'])),
        Case('body-refused', when=lambda c: kind(c) == 'body' and neg(body_ok(c)), raises=struct.error),
        Case('heartbeat', when=lambda c: kind(c) == 'heartbeat', returns=lambda c: wire.HEARTBEAT_FRAME),
        Case('not-a-frame', when=lambda c: kind(c) == 'other', raises=ValueError),
    ]
    def not_method_or_header(fn, args):
        v = args[0] if args else None
        return not (isinstance(v, SObj) and issubclass(v.cls, (base.Frame, header.ContentHeader)))

    return Contract(FRM + 'marshal', [('frame_value', fv), ('channel_id', T.int)], cases=cases,
                    selector=not_method_or_header,
                    doc='C04/C18: dispatch over the frame kinds (method and content-header kinds: see per-class contracts)')


# ---------------------------------------------------------------- lemma contracts
def lemma_contracts():
    base, body, header, heartbeat, exceptions = _classes()
    UE = exceptions.UnmarshalingException
    L = 'contracts.lemmas.'
    out = []
    from pyvc.contract import values_equal

    def veq(st, a, b):
        t, exact = values_equal(st, a, b)
        return t if exact else False

    # C18 body: for all value (1 <= len < 2^32), channel, rest
    def body_req(c):
        n = wire.blen(c.st, c.value)
        return conj(le(1, n), lt(n, 2 ** 32), in_range(c.channel, 0, 65535))

    def body_post(c, res):
        st = c.st
        w, (n, ch, obj) = res
        exp_w = wire.frame(st, 3, c.channel, c.value)
        return conj(veq(st, w, exp_w), eq(n, I(wire.blen(st, c.value)) + 8), eq(n, wire.blen(st, w)), eq(ch, c.channel),
                    isinstance(obj, SObj) and obj.cls is body.ContentBody and veq(st, obj.attrs.get('value'), c.value))

    out.append(Contract(L + 'c18_body_roundtrip', [('value', T.bytes), ('channel', T.int), ('rest', T.bytes)],
                        requires=body_req, cases=[Case('roundtrip', post=body_post)], pure=False, bounded=False))
    out.append(Contract(L + 'c18_body_len', [('value', T.bytes)],
                        requires=lambda c: le(1, wire.blen(c.st, c.value)),
                        cases=[Case('byte-length', returns=lambda c: wire.blen(c.st, c.value))], pure=False, bounded=False))

    def hb_post(c, res):
        w, (n, ch, obj) = res
        return conj(veq(c.st, w, wire.HEARTBEAT_FRAME), eq(n, 8), eq(ch, 0),
                    isinstance(obj, SObj) and obj.cls is heartbeat.Heartbeat)

    out.append(Contract(L + 'c18_heartbeat', [('channel', T.int), ('rest', T.bytes)],
                        requires=lambda c: in_range(c.channel, 0, 65535),
                        cases=[Case('roundtrip', post=hb_post)], pure=False, bounded=False))

    def ph_post(c, res):
        st = c.st
        w, (n, ch, obj) = res
        ok_obj = isinstance(obj, SObj) and obj.cls is header.ProtocolHeader
        if not ok_obj:
            return False
        a = obj.attrs
        return conj(veq(st, w, wire.protocol_header(st, c.major, c.minor, c.revision)), eq(n, 8), eq(ch, 0),
                    eq(a['major_version'], c.major), eq(a['minor_version'], c.minor), eq(a['revision'], c.revision))

    out.append(Contract(L + 'c18_protocol_header',
                        [('major', T.int), ('minor', T.int), ('revision', T.int), ('channel', T.int), ('rest', T.bytes)],
                        requires=lambda c: octets(c.major, c.minor, c.revision),
                        cases=[Case('roundtrip', post=ph_post)], pure=False, bounded=False))

    # C06: appending bytes changes nothing (for every buffer on which decoding succeeds consuming all of it)
    def c06_post(c, res):
        st = c.st
        n1, ch1, o1, n2, ch2, o2, remaining = res
        same_kind = isinstance(o1, SObj) and isinstance(o2, SObj) and o1.cls is o2.cls
        if not same_kind:
            return False
        same_obj = True
        if o1.cls in (body.ContentBody, header.ProtocolHeader, heartbeat.Heartbeat):
            same_obj = veq(st, o1, o2)
        return conj(eq(n1, n2), eq(ch1, ch2), same_obj, veq(st, remaining, c.tail))

    def c06_setup(c):
        # `first` is consumed entirely by a successful decode: this is the hypothesis of the clause
        c.ghost['note'] = 'hypothesis: unmarshal(first) returns n1 == len(first)'

    def c06_when(c):
        return True

    out.append(Contract(L + 'c06_trailing_bytes', [('first', T.bytes), ('tail', T.bytes)],
                        cases=[Case('independent-of-trailing-bytes', post=lambda c, r: disj(neg(eq(r[0], wire.blen(c.st, c.first))), c06_post(c, r)),
                                    may_raise=(UE,))],
                        pure=False, bounded=False,
                        doc='C06: result and consumed count do not depend on bytes after the frame; dropping the consumed bytes leaves exactly the tail'))
    return out


def c07_c20_lemma_contracts():
    base, body, header, heartbeat, exceptions = _classes()
    UE = exceptions.UnmarshalingException
    L = 'contracts.lemmas.'
    out = []
    from pyvc.contract import values_equal

    def veq(st, a, b):
        t, exact = values_equal(st, a, b)
        return t if exact else False

    # ---- C07: every strict prefix of every valid frame raises UnmarshalingException
    def ph_prefix(k):
        def mk(st, name):
            full = list(b'AMQP\x00') + [st.new_byte('ver') for _ in range(3)]
            return st.mk_bytes(full[:k])
        return ('protocol-header[:%d]' % k, mk)

    def valid_header(st):
        t = st.new_byte('type')
        ch = [st.new_byte('ch') for _ in range(2)]
        sz = [st.new_byte('size') for _ in range(4)]
        size = wire.uint(sz)
        # a valid frame: method/header/body with a non-empty payload, or the heartbeat (type 8, size 0)
        st.assume(z3.Or(z3.And(t >= 1, t <= 3, I(size) >= 1), z3.And(t == 8, I(size) == 0)))
        return [t] + ch + sz, size

    def frame_prefix_short(k):
        def mk(st, name):
            atoms, size = valid_header(st)
            return st.mk_bytes(atoms[:k])
        return ('frame[:%d]' % k, mk)

    def frame_prefix_long(st, name):
        atoms, size = valid_header(st)
        x = st.new_chunk('received')
        st.assume(x.len < I(size) + 1)      # strictly fewer than payload + frame-end octet
        return SBytes(atoms + [x])

    makers = [ph_prefix(k) for k in range(8)] + [frame_prefix_short(k) for k in range(7)] \
        + [('frame[:7+j], j < size+1', frame_prefix_long)]
    out.append(Contract(L + 'c07_prefix', [('prefix', TSpec(makers))],
                        cases=[Case('wait-for-more-data', raises=UE)], pure=False, bounded=False,
                        doc='C07: all cut points of all valid frames (payload content is irrelevant: arbitrary chunk)'))

    # ---- C20
    def peek_req(c):
        n = wire.blen(c.st, c.value)
        return conj(le(1, n), lt(n, 2 ** 32), in_range(c.channel, 0, 65535))

    def peek_post(c, res):
        st = c.st
        t, ch, size, wlen, (n, ch2, obj) = res
        return conj(eq(t, 3), eq(ch, c.channel), eq(I(size) + 8, wlen), eq(n, wlen), eq(ch2, c.channel),
                    isinstance(obj, SObj) and obj.cls is body.ContentBody and veq(st, obj.attrs.get('value'), c.value))

    out.append(Contract(L + 'c20_peek_then_read', [('value', T.bytes), ('channel', T.int), ('rest', T.bytes)],
                        requires=peek_req, cases=[Case('peek-agrees-with-decoder', post=peek_post)], pure=False, bounded=False))

    def low_req(c):
        return conj(in_range(c.frame_type, 0, 255), in_range(c.channel, 0, 65535), lt(wire.blen(c.st, c.payload), 2 ** 32))

    def low_post(c, res):
        t, ch, size, wlen = res
        return conj(eq(t, c.frame_type), eq(ch, c.channel), eq(size, wire.blen(c.st, c.payload)), eq(I(size) + 8, wlen))

    out.append(Contract(L + 'c20_peek_low_level',
                        [('frame_type', T.int), ('channel', T.int), ('payload', T.bytes), ('rest', T.bytes)],
                        requires=low_req, cases=[Case('peeked-size-plus-8-is-the-frame-length', post=low_post)],
                        pure=False, bounded=False,
                        doc='C20: for every frame the low-level encoder produces (all kinds share _marshal)'))
    return out


# ---------------------------------------------------------------- frame.unmarshal: envelope clause (C06/C07)
def unmarshal_envelope_contract():
    """Whenever decoding succeeds on *any* input: the kind of object, the
    channel and the consumed count are the ones written in the frame's own
    7-octet header (type, channel, size + 8), no more octets are consumed than
    were supplied, and the last consumed octet is the frame end; a protocol
    header only for input starting with 'AMQP', consuming 8 octets."""
    base, body, header, heartbeat, exceptions = _classes()

    def post(c, res):
        st, d = c.st, c.data_in
        if not (isinstance(res, tuple) and len(res) == 3):
            return False
        n, ch, obj = res
        if not (is_int(n) and is_int(ch) and isinstance(obj, SObj)):
            return False
        length = wire.blen(st, d)
        if issubclass(obj.cls, header.ProtocolHeader):
            a = wire.peek(st, d, 8)
            if a is None:
                return False
            return conj(wire.atoms_eq(a[:4], b'AMQP'), eq(n, 8), eq(ch, 0))
        h = wire.peek(st, d, 7)
        if h is None:
            return False
        ftype, fch, size = wire.uint(h[0:1]), wire.uint(h[1:3]), wire.uint(h[3:7])
        kinds = {1: base.Frame, 2: header.ContentHeader, 3: body.ContentBody, 8: heartbeat.Heartbeat}
        kind_ok = disj(*[eq(ftype, t) for t, k in kinds.items() if issubclass(obj.cls, k)])
        if not st.branch(B(conj(eq(n, I(size) + 8), le(n, length))), 'spec:consumed-is-size+8-and-present'):
            return False
        last = wire.byte_at(st, d, mk_int(I(n) - 1))
        return conj(kind_ok, eq(ch, fch), eq(last, wire.FRAME_END))

    return Contract(FRM + 'unmarshal', [('data_in', T.bytes)],
                    cases=[Case('envelope', post=post, may_raise=(Exception,))],
                    name=FRM + 'unmarshal(env)', selector=lambda fn, args: False, bounded=False,
                    views={FRM + '_unmarshal_method_frame': 't', FRM + '_unmarshal_header_frame': 't'},
                    doc='C06/C07 envelope clause over all byte strings on which decoding succeeds')
