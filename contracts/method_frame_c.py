"""Method frames end to end: frame._marshal_method_frame[C], frame.marshal[C],
frame._unmarshal_method_frame, the grammar view of frame.unmarshal for method
frames, and the C01 round-trip lemma -- one instance per method class of the
*specification table*."""
import struct

import z3

from pyvc import sym
from pyvc.contract import Contract, Case, T, TSpec, values_equal, obj_nonempty
from pyvc.dsl import conj, disj, neg, in_range, is_int, eq, le, lt
from pyvc.sym import I, B, SBytes, SObj, SInt, SBool, SStr, SOpaque, mk_int, mk_bool, State
from spec import wire, tables
from contracts import class_c, frame_c
from contracts.class_c import (real_class, self_spec, valid, all_encodable, LEGACY, ENCODE_REFUSALS,
                               RAISES_DECODE)

FRM = 'pamqp.frame.'


def _ue():
    from pamqp import exceptions
    return exceptions.UnmarshalingException


def leg(c):
    return c.reads['DEPRECATED_RABBITMQ_SUPPORT']


# ---------------------------------------------------------------- encoding side
def payload(c, m, attrs):
    fields = [(f.name, f.wire) for f in m.fields]
    return wire.cat(c.st, wire.be(c.st, 4, m.index), wire.args_wire(c.st, fields, attrs, leg(c)))


def marshal_cases(m, obj_of, chan_of):
    def fits(c):
        a = obj_of(c).attrs
        ok = conj(valid(c.st, m, a), all_encodable(c.st, m, a, leg(c)))
        if ok is False or not is_int(chan_of(c)):
            return False
        if not c.st.branch(B(ok) if not isinstance(ok, bool) else ok, 'spec:arguments-encodable'):
            return False
        return conj(in_range(chan_of(c), 0, 65535), lt(wire.blen(c.st, payload(c, m, a)), 2 ** 32))

    cases = [Case('method-frame', when=fits,
                  returns=lambda c: wire.frame(c.st, 1, chan_of(c), payload(c, m, obj_of(c).attrs)))]
    if tables.constraints(m):
        cases.insert(0, Case('invalid-arguments', when=lambda c: neg(valid(c.st, m, obj_of(c).attrs)), raises=ValueError))
    cases.append(Case('refused', when=lambda c: conj(valid(c.st, m, obj_of(c).attrs), neg(fits(c))),
                      raises=ENCODE_REFUSALS, need_cover=False))
    return cases


def marshal_method_frame_contract(m):
    sel = lambda fn, args: bool(args) and isinstance(args[0], SObj) and args[0].cls is real_class(m)
    return Contract(FRM + '_marshal_method_frame', [('value', self_spec(m)), ('channel_id', T.int)],
                    cases=marshal_cases(m, lambda c: c.value, lambda c: c.channel_id), reads=[LEGACY], selector=sel,
                    name=FRM + '_marshal_method_frame[%s]' % m.name, bounded=False,
                    doc='C04: frame type 1, channel, size, class+method id (from the specification table), arguments, 0xCE')


def frame_marshal_contract(m):
    sel = lambda fn, args: bool(args) and isinstance(args[0], SObj) and args[0].cls is real_class(m)
    return Contract(FRM + 'marshal', [('frame_value', self_spec(m)), ('channel_id', T.int)],
                    cases=marshal_cases(m, lambda c: c.frame_value, lambda c: c.channel_id), reads=[LEGACY], selector=sel,
                    name=FRM + 'marshal[%s]' % m.name, bounded=False)


# ---------------------------------------------------------------- decoding side
def method_lookup(st, frame_data):
    """Reference reading of a method payload: class+method id, then arguments.
    -> ('short',) | ('unknown',) | (method, argument octets)"""
    a = wire.peek(st, frame_data, 4)
    if a is None:
        return ('short',)
    idx = State.unpack_uint(list(a))
    rest = wire.sub(st, frame_data, 4, None)
    if isinstance(idx, int):
        m = tables.BY_INDEX.get(idx)
        return ('unknown',) if m is None else (m, rest)
    for m in tables.METHODS:
        if st.branch(I(idx) == m.index, 'spec:method-id-%s' % m.name):
            return (m, rest)
    return ('unknown',)


def method_parse(st, frame_data):
    """-> (method, values, condition) | 'short' | 'unknown' | (method, None, False)"""
    r = method_lookup(st, frame_data)
    if len(r) == 1:
        return r[0]
    m, rest = r
    p = wire.args_parse(st, [(f.name, f.wire) for f in m.fields], rest)
    if p is None:
        return (m, None, False)
    values, consumed, cond = p
    return (m, values, cond)


GOOD_TABLES = [b'\x00\x00\x00\x00', b'\x00\x00\x00\x07\x01kI\x00\x00\x00\x01', b'\x00\x00\x00\x05\x02abt\x01']
BAD_TABLES = [b'\x00\x00\x00\x03\x01kZ',                       # unknown type tag
              b'\x00\x00\x00\x04\x02\xff\xfeV',                  # key is not UTF-8
              b'\x00\x00\x00\x0b\x01kT' + b'\xff' * 8,         # timestamp beyond datetime
              b'\x00\x00\x00\x0b\x01kT\x7f' + b'\xff' * 7,
              b'\x00\x00\x00\x09\x01kA\x00\x00\x00\x02Z\x00',  # array with unknown tag
              b'\x00\x00\x00\x10\x01kS\x00\x00\x00\xff']       # inflated inner length


def payload_samples(m, rng, n):
    """Grammar-generated argument octets for class m with injected faults
    (bounded stand-in behind the arbitrary-octets obligations)."""
    def field(wire_type, bad):
        if wire_type == 'octet':
            return bytes([rng.randrange(256)])
        if wire_type == 'short':
            return rng.randrange(65536).to_bytes(2, 'big')
        if wire_type == 'long':
            return rng.randrange(2 ** 32).to_bytes(4, 'big')
        if wire_type == 'longlong':
            return rng.randrange(2 ** 64).to_bytes(8, 'big')
        if wire_type == 'shortstr':
            body = rng.choice([b'\xff\xfe', b'\xc3', b'\xed\xa0\x80']) if bad else rng.choice([b'', b'q', 'é€'.encode()])
            return bytes([len(body)]) + body
        if wire_type == 'longstr':
            body = rng.choice([b'\xff\xfe', b'PLAIN', b''])
            return len(body).to_bytes(4, 'big') + body
        if wire_type == 'table':
            return rng.choice(BAD_TABLES if bad else GOOD_TABLES)
        raise ValueError(wire_type)

    def args(bad_at):
        out, bits = b'', 0
        for i, f in enumerate(m.fields):
            if f.wire == 'bit':
                if bits % 8 == 0:
                    out += bytes([rng.randrange(256)])
                bits += 1
                continue
            bits = 0
            out += field(f.wire, i == bad_at)
        return out

    head = m.index.to_bytes(4, 'big')
    outs = [head + args(None) for _ in range(3)]
    for i, f in enumerate(m.fields):
        if f.wire in ('shortstr', 'table'):
            outs += [head + args(i) for _ in range(4)]
    good = head + args(None)
    outs += [good[:k] for k in range(len(good))]              # every truncation
    return outs


def payload_instances(which=None):
    """which: None = all; a Method = that class only; 'other' = short / unknown ids."""
    makers = []
    for m in tables.METHODS:
        if which is not None and which is not m:
            continue

        def mk(st, name, m=m):
            return SBytes(list(m.index.to_bytes(4, 'big')) + [st.new_chunk('arguments')])
        makers.append((m.name, mk, (lambda m: lambda rng, n: payload_samples(m, rng, n))(m)))
    if which is None or which == 'other':
        for k in range(4):
            makers.append(('short-%d' % k, (lambda k: lambda st, name: st.mk_bytes([st.new_byte('i') for _ in range(k)]))(k)))

        def unknown(st, name):
            atoms = [st.new_byte('i') for _ in range(4)]
            idx = State.unpack_uint(atoms)
            st.assume(z3.And([I(idx) != m.index for m in tables.METHODS]))
            return SBytes(atoms + [st.new_chunk('arguments')])
        makers.append(('unknown-id', unknown))
    return TSpec(makers)


def method_obj(m, values):
    return SObj(real_class(m), {f.name: values[f.name] for f in m.fields}, provenance='fresh')


def unmarshal_method_frame_contract(which=None):
    """which=None: the contract callers see (all clauses; assembled from the
    per-class units, which are the ones verified)."""
    from pamqp import base
    UE = _ue()

    def parsed(c):
        return method_parse(c.st, c.frame_data)

    def good(c):
        r = parsed(c)
        return False if isinstance(r, str) else r[2]

    def garbled(c):
        r = parsed(c)
        return False if isinstance(r, str) else neg(r[2])

    def out(c):
        m, values, cond = parsed(c)
        return method_obj(m, values)

    def post_garbled(c, res):
        r = parsed(c)
        return isinstance(res, SObj) and not isinstance(r, str) and res.cls is real_class(r[0])

    def havoc(c):
        r = parsed(c)
        m = r[0]
        return SObj(real_class(m), {f.name: SOpaque('foreign', c.st.fresh('garbage', sym.ObjS)) for f in m.fields})

    if which is None:
        name, extra = FRM + '_unmarshal_method_frame', dict(trusted=True, established_by=lambda reg: [
            c.name for c in reg.all if c.name.startswith(FRM + '_unmarshal_method_frame[')])
    elif which == 'other':
        name, extra = FRM + '_unmarshal_method_frame[short-or-unknown-id]', dict(selector=lambda fn, args: False,
                                                                                 check_cases={'shorter-than-a-method-id', 'unknown-method-id'})
    else:
        name, extra = FRM + '_unmarshal_method_frame[%s]' % which.name, dict(
            selector=lambda fn, args: False, check_cases={'method', 'method-with-malformed-arguments'})
    return Contract(FRM + '_unmarshal_method_frame', [('frame_data', payload_instances(which))], cases=[
        Case('method', when=good, returns=out, fresh_result=True),
        Case('method-with-malformed-arguments', when=garbled, post=post_garbled, havoc=havoc, may_raise=(UE,),
             need_cover=not (which not in (None, 'other') and not which.fields)),
        Case('shorter-than-a-method-id', when=lambda c: parsed(c) == 'short', raises=UE),
        Case('unknown-method-id', when=lambda c: parsed(c) == 'unknown', raises=UE),
    ], bounded=which not in (None, 'other'), complete=True, name=name, **extra,
        doc='C05/C09: the class named by the id with the values the grammar assigns; UnmarshalingException for everything else')


# ---------------------------------------------------------------- grammar view of frame.unmarshal (method frames)
def unmarshal_g_contract(which=None):
    """The total contract of frame.unmarshal with the method clause made
    precise: used by the round-trip lemmas.  Only the 'method-frame' clause is
    verified here (on structured instances, one per class); every other clause
    is the one verified on arbitrary octets under pamqp.frame.unmarshal."""
    base_c = frame_c.unmarshal_contract()
    UE = _ue()

    def view(c):
        st, d = c.st, c.data_in
        h = wire.peek(st, d, 7)
        if h is None:
            return None
        a4 = h[:4]
        if st.branch(B(wire.atoms_eq(a4, b'AMQP')) if not isinstance(wire.atoms_eq(a4, b'AMQP'), bool) else wire.atoms_eq(a4, b'AMQP'), 'spec:amqp'):
            return None
        ftype, ch, size = wire.uint(h[0:1]), wire.uint(h[1:3]), wire.uint(h[3:7])
        if not st.branch(B(conj(eq(ftype, 1), lt(0, size), le(I(size) + 8, wire.blen(st, d)))), 'spec:complete-method-frame'):
            return None
        end = wire.byte_at(st, d, mk_int(I(size) + 7))
        if not st.branch(B(eq(end, wire.FRAME_END)) if not isinstance(eq(end, wire.FRAME_END), bool) else eq(end, wire.FRAME_END), 'spec:frame-end'):
            return None
        return ch, size, wire.sub(st, d, 7, mk_int(I(size) + 7))

    def good(c):
        v = view(c)
        if v is None:
            return False
        r = method_parse(c.st, v[2])
        return False if isinstance(r, str) else r[2]

    def out(c):
        ch, size, pl = view(c)
        m, values, cond = method_parse(c.st, pl)
        return (mk_int(I(size) + 8), ch, method_obj(m, values))

    from contracts import header_c

    def hview(c):
        """a complete content-header frame whose payload is a grammar-valid header"""
        st, d = c.st, c.data_in
        h = wire.peek(st, d, 7)
        if h is None:
            return None
        amqp = wire.atoms_eq(h[:4], b'AMQP')
        if st.branch(B(amqp) if not isinstance(amqp, bool) else amqp, 'spec:amqp'):
            return None
        ftype, ch, size = wire.uint(h[0:1]), wire.uint(h[1:3]), wire.uint(h[3:7])
        if not st.branch(B(conj(eq(ftype, 2), lt(0, size), le(I(size) + 8, wire.blen(st, d)))), 'spec:complete-header-frame'):
            return None
        end = wire.byte_at(st, d, mk_int(I(size) + 7))
        e = eq(end, wire.FRAME_END)
        if not st.branch(B(e) if not isinstance(e, bool) else e, 'spec:frame-end'):
            return None
        # the payload starts at octet 7; the header may not extend beyond `size` octets (what follows it inside the
        # payload is ignored by the grammar clause; the frame-end octet was located from `size` above)
        pl = wire.sub(st, d, 7, None)
        hv = header_c.header_view(c, pl)
        if hv is None or not st.must(I(hv[0]['consumed']) <= I(size)):
            return None
        return ch, size, pl

    def hgood(c):
        return hview(c) is not None

    def hout(c):
        ch, size, pl = hview(c)
        return (mk_int(I(size) + 8), ch, header_c.expected_header(c, pl))

    cases = []
    for k in base_c.cases:
        if k.name == 'method':
            cases.append(Case('method-frame', when=good, returns=out, fresh_result=True))
            old = k.when
            cases.append(Case('method', when=(lambda old: lambda c: conj(old(c), neg(good(c))))(old), post=k.post,
                              havoc=k.havoc, may_raise=k.may_raise))
        elif k.name == 'content-header':
            cases.append(Case('content-header-frame', when=hgood, returns=hout, fresh_result=True))
            old = k.when
            cases.append(Case('content-header', when=(lambda old: lambda c: conj(old(c), not hgood(c)))(old), post=k.post,
                              havoc=k.havoc, may_raise=k.may_raise))
        else:
            cases.append(k)

    def inst(m):
        def mk(st, name):
            ch = [st.new_byte('ch') for _ in range(2)]
            sz = [st.new_byte('size') for _ in range(4)]
            args = st.new_chunk('arguments')
            st.assume(I(wire.uint(sz)) == 4 + args.len)
            return SBytes([1] + ch + sz + list(m.index.to_bytes(4, 'big')) + [args, wire.FRAME_END, st.new_chunk('rest')])
        return (m.name, mk)

    def hinst(label, mk):
        def build(st, name):
            payload = mk(st)
            ch = [st.new_byte('ch') for _ in range(2)]
            sz = [st.new_byte('size') for _ in range(4)]
            st.assume(I(wire.uint(sz)) == st.rope_len_term(SBytes(payload)))
            return SBytes([2] + ch + sz + payload + [wire.FRAME_END, st.new_chunk('rest')])
        return ('content-header[%s]' % label, build)

    if which is None:
        extra = dict(name=FRM + 'unmarshal(g)', trusted=True, established_by=lambda reg: [
            c.name for c in reg.all if c.name.startswith(FRM + 'unmarshal(g)[')])
        insts = [inst(m) for m in tables.METHODS]
        check = {'method-frame', 'content-header-frame'}
    elif which == 'header':
        extra = dict(name=FRM + 'unmarshal(g)[ContentHeader]', selector=lambda fn, args: False)
        insts = [hinst(l, mk) for l, mk in header_c.payload_makers()]
        check = {'content-header-frame'}
    else:
        extra = dict(name=FRM + 'unmarshal(g)[%s]' % which.name, selector=lambda fn, args: False)
        insts = [inst(which)]
        check = {'method-frame'}
    return Contract(FRM + 'unmarshal', [('data_in', TSpec(insts))],
                    cases=cases, view='g', check_cases=check, bounded=False, complete=True, **extra,
                    doc='C05/C01: a complete method frame decodes to the class named by its id with the grammar values')


# ---------------------------------------------------------------- C01 round-trip lemma, per class
def norm_attr(st, wire_type, v):
    """The documented normalisation of one argument (C01/C03)."""
    if wire_type == 'table':
        if v is None:
            return {}
        if isinstance(v, dict):
            return v
        if not st.branch(obj_nonempty(v.t), 'spec:table-nonempty'):
            return {}
        return SOpaque('dict', wire.norm_value(v.t))
    return v


def roundtrip_lemma(m):
    L = 'contracts.lemmas.c01_roundtrip'

    def req(c):
        a = c.frame_value.attrs
        first = conj(valid(c.st, m, a), all_encodable(c.st, m, a, leg(c)), in_range(c.channel, 0, 65535))
        c.st.assume(B(first) if not isinstance(first, bool) else first)
        return lt(wire.blen(c.st, payload(c, m, a)), 2 ** 32)

    def post(c, res):
        st = c.st
        data, (n, ch, obj) = res
        if not (isinstance(obj, SObj) and obj.cls is real_class(m)):
            return False
        terms = [eq(n, wire.blen(st, data)), eq(ch, c.channel)]
        for f in m.fields:
            if f.name not in obj.attrs:
                return False
            want = norm_attr(st, f.wire, c.frame_value.attrs[f.name])
            t, exact = values_equal(st, obj.attrs[f.name], want)
            terms.append(t if exact else False)
        return conj(*terms)

    return Contract(L, [('frame_value', self_spec(m)), ('channel', T.int), ('rest', T.bytes)], requires=req,
                    cases=[Case('same-class-channel-length-and-arguments', post=post)], reads=[LEGACY],
                    selector=lambda fn, args: False, name='%s[%s]' % (L, m.name), pure=False, bounded=False,
                    views={FRM + 'unmarshal': 'g'},
                    doc='C01: decode(encode(frame, ch) ++ rest) gives the length, the channel, the class and equal typed arguments')


def register(reg):
    for m in tables.METHODS:
        reg.add(marshal_method_frame_contract(m))
        reg.add(frame_marshal_contract(m))
        reg.add(roundtrip_lemma(m))
    reg.add(unmarshal_method_frame_contract())
    reg.add(unmarshal_g_contract())
    for m in tables.METHODS:
        reg.add(unmarshal_method_frame_contract(m))
        reg.add(unmarshal_g_contract(m))
    reg.add(unmarshal_method_frame_contract('other'))
    reg.add(unmarshal_g_contract('header'))


def names(kind):
    return {'marshal_method_frame': [FRM + '_marshal_method_frame[%s]' % m.name for m in tables.METHODS],
            'frame_marshal': [FRM + 'marshal[%s]' % m.name for m in tables.METHODS],
            'roundtrip': ['contracts.lemmas.c01_roundtrip[%s]' % m.name for m in tables.METHODS],
            'unmarshal_method_frame': [FRM + '_unmarshal_method_frame[%s]' % m.name for m in tables.METHODS]
            + [FRM + '_unmarshal_method_frame[short-or-unknown-id]'],
            'unmarshal_g': [FRM + 'unmarshal(g)[%s]' % m.name for m in tables.METHODS]}[kind]
