"""header.ContentHeader, its frame-level encoders / decoders and the C02 lemmas."""
import struct

import z3

from pyvc import sym
from pyvc.contract import Contract, Case, T, TSpec, values_equal, obj_nonempty
from pyvc.dsl import conj, disj, neg, implies, in_range, is_int, eq, le, lt
from pyvc.loops import CutWhile
from pyvc.sym import I, B, SBytes, SObj, SInt, SBool, SStr, SOpaque, SCond, Chunk, mk_int, mk_bool, State
from spec import wire, tables
from contracts import props_c, frame_c
from contracts.props_c import (NAMES, BITS, TYPES, LEGACY, ENCODE_REFUSALS, RAISES_DECODE, props_spec, props_class, leg,
                               all_ok, wire_of, present_of, values_of, describe)

CH = 'pamqp.header.ContentHeader.'
FRM = 'pamqp.frame.'
U64 = (0, 2 ** 64 - 1)


def header_class():
    from pamqp import header
    return header.ContentHeader


def _ue():
    from pamqp import exceptions
    return exceptions.UnmarshalingException


def default_props(st):
    p = SObj(props_class(), {n: ('' if n == 'cluster_id' else None) for n in NAMES}, provenance='fresh')
    return p


def header_spec(provenance='param'):
    """`self`: a ContentHeader whose properties object is a symbolic property set."""
    makers = []
    for plabel, pmk in props_spec().instances():
        def mk(st, name, pmk=pmk):
            return SObj(header_class(), {'class_id': None, 'weight': SInt(st.fresh_int('weight')),
                                         'body_size': SInt(st.fresh_int('body_size')),
                                         'properties': pmk(st, name + '_properties')},
                        provenance=provenance, label=name)
        makers.append(('ContentHeader(%s)' % plabel, mk))
    return TSpec(makers)


def header_bytes(st, h, legacy):
    """class id 60, weight 0, 64-bit body size, then the property flags and list (4.2.6.1)."""
    return wire.cat(st, wire.be(st, 2, 60), b'\x00\x00', wire.be(st, 8, h.attrs['body_size']),
                    wire_of(st, h.attrs['properties'], legacy))


def header_ok(st, h, legacy):
    size = h.attrs['body_size']
    if not is_int(size) or not isinstance(h.attrs.get('properties'), SObj):
        return False
    return conj(in_range(size, *U64), all_ok(st, h.attrs['properties'], legacy))


# ---------------------------------------------------------------- ContentHeader.__init__ / marshal
def init_contract():
    cls = header_class()

    def fresh_self(st, name):
        return SObj(cls, {}, provenance='param', label=name)

    given = props_spec() | T.none

    def post(c, res):
        a = c.self.attrs
        if res is not None or set(a) != {'class_id', 'weight', 'body_size', 'properties'}:
            return False
        p = a['properties']
        if c.properties is None:
            # a property set allocated by this call, all unset (C16: never a shared default)
            fresh = isinstance(p, SObj) and p.cls is props_class() and p.provenance == 'fresh' and \
                all(p.attrs.get(n) == ('' if n == 'cluster_id' else None) and not sym.is_symbolic(p.attrs.get(n)) for n in NAMES)
            if not fresh:
                return False
        elif p is not c.properties:
            return False
        return conj(a['class_id'] is None, values_equal(c.st, a['weight'], c.weight)[0],
                    values_equal(c.st, a['body_size'], c.body_size)[0])

    def eff(c):
        c.self.attrs.update({'class_id': None, 'weight': c.weight, 'body_size': c.body_size,
                             'properties': c.properties if c.properties is not None else default_props(c.st)})

    return Contract(CH + '__init__', [('self', TSpec([('ContentHeader', fresh_self)])), ('weight', T.int),
                                      ('body_size', T.int), ('properties', given)],
                    cases=[Case('stores', post=post, effects=eff)], pure=False, bounded=False,
                    doc='C02/C16: stores its arguments; a fresh, empty property set per call when none is given')


def marshal_contract():
    return Contract(CH + 'marshal', [('self', header_spec())], cases=[
        Case('encoded', when=lambda c: header_ok(c.st, c.self, leg(c)), returns=lambda c: header_bytes(c.st, c.self, leg(c))),
        Case('refused', when=lambda c: neg(header_ok(c.st, c.self, leg(c))), raises=ENCODE_REFUSALS, need_cover=False),
    ], reads=[LEGACY], bounded=False, complete=True, doc='C02/C04: content header payload')


# ---------------------------------------------------------------- _get_flags
def get_flags_contract():
    GF = CH + '_get_flags'

    class W:
        """a flag word: value, its sixteen bits (LSB first) and its continuation bit (bit 0)"""
        def __init__(self, st, atoms):
            self.v = st.from_bytes(list(atoms), False)
            self.bits = []
            for a in reversed(list(atoms)):
                self.bits.extend(st.bits_of(a, 8) if not isinstance(a, int)
                                 else [z3.BoolVal(bool((a >> k) & 1)) for k in range(8)])
            self.odd = self.bits[0]

    def words(c):
        a = wire.peek(c.st, c.data, 2)
        if a is None:
            return None, None
        b = wire.peek(c.st, c.data, 4)
        return W(c.st, a), (W(c.st, b[2:4]) if b is not None else None)

    def odd(w):
        return w.odd

    def one(c):
        w0, w1 = words(c)
        return False if w0 is None else neg(odd(w0))

    def two(c):
        w0, w1 = words(c)
        return False if w1 is None else conj(odd(w0), neg(odd(w1)))

    def more(c):
        w0, w1 = words(c)
        return False if w1 is None else conj(odd(w0), odd(w1))

    def cut_short(c):
        w0, w1 = words(c)
        if w0 is None:
            return True
        return odd(w0) if w1 is None else False

    def same_bits(c, r, want):
        """the low len(want) bits of the integer r are `want` (whether the words were read signed or not)"""
        if isinstance(r, int):
            return conj(*[(b if bool((r >> k) & 1) else z3.Not(b)) for k, b in enumerate(want)])
        got = c.ip.lib.low_bits(r, 16 if len(want) <= 16 else 32)
        return conj(*[g == w for g, w in zip(got, want)])

    def post_one(c, r):
        w0, _ = words(c)
        return isinstance(r, tuple) and len(r) == 2 and is_int(r[1]) and conj(eq(r[0], 2), same_bits(c, r[1], w0.bits))

    def post_two(c, r):
        w0, w1 = words(c)
        if not (isinstance(r, tuple) and len(r) == 2 and is_int(r[1])):
            return False
        return conj(eq(r[0], 4), same_bits(c, r[1], w0.bits + w1.bits))

    def havoc_one(c):
        w0, _ = words(c)
        return (2, w0.v)

    def havoc_two(c):
        w0, w1 = words(c)
        both = mk_int(I(w0.v) + 65536 * I(w1.v))
        c.st.set_bits(both, w0.bits + w1.bits, z3.BoolVal(False))
        return (4, both)

    def havoc_more(c):
        n = c.st.fresh_int('flag_words')
        c.st.assume(z3.And(n >= 3, 2 * n <= c.st.rope_len_term(c.data)))
        return (SInt(2 * n), SInt(c.st.fresh_int('flags')))

    def post_more(c, r):
        return isinstance(r, tuple) and len(r) == 2 and is_int(r[0]) and conj(le(6, r[0]), le(r[0], wire.blen(c.st, c.data)))

    def loop():
        def havoc(ip, fr):
            st = ip.st
            n = st.fresh_int('words_read')
            st.assume(z3.And(n >= 2, 2 * n <= st.rope_len_term(fr.locals['data'])))
            fr.locals['flagword_index'] = SInt(n)
            fr.locals['bytes_consumed'] = SInt(2 * n)
            fr.locals['flags'] = SInt(st.fresh_int('flags_so_far'))
            st.approx_int_ops = True     # the accumulated flags value is irrelevant beyond the second word

        def inv(ip, fr):
            st = ip.st
            fl = fr.locals
            if not all(is_int(fl.get(k)) for k in ('flagword_index', 'bytes_consumed', 'flags')):
                return [('loop-state-is-integers', False, True)]
            return [('consumed-two-octets-per-word', eq(fl['bytes_consumed'], 2 * I(fl['flagword_index'])), True),
                    ('consumed-within-the-data', le(fl['bytes_consumed'], st.rope_len_term(fl['data'])), True),
                    ('at-least-two-words', le(2, fl['flagword_index']), True)]

        def variant(ip, fr):
            return mk_int(ip.st.rope_len_term(fr.locals['data']) - I(fr.locals['bytes_consumed']))
        ann = CutWhile(2, havoc, inv, variant, doc='each iteration consumes one further flag word')
        ann.binds = ('flagword_index', 'bytes_consumed', 'flags', 'data')
        return ann

    return Contract(GF, [('data', T.bytes)], cases=[
        Case('one-flag-word', when=one, post=post_one, havoc=havoc_one),
        Case('two-flag-words', when=two, post=post_two, havoc=havoc_two),
        Case('three-or-more-flag-words', when=more, post=post_more, havoc=havoc_more, may_raise=(struct.error,),
             need_cover=False),
        Case('flag-words-cut-short', when=cut_short, raises=struct.error),
    ], loops={(GF, 0): loop()}, bounded=True,
        doc='C02/C05/C08: 2 octets per flag word while the continuation bit is set; always terminates')


# ---------------------------------------------------------------- ContentHeader.unmarshal
def parse_header(c, data):
    """Reference reading of a content header payload: -> dict or None."""
    st = c.st
    a = wire.peek(st, data, 12)
    if a is None:
        return None
    out = {'class_id': State.unpack_uint(a[0:2]), 'weight': State.unpack_uint(a[2:4]),
           'body_size': State.unpack_uint(a[4:12])}
    w = wire.peek(st, data, 14)
    if w is None:
        return None
    def low_bit(atom):
        return bool(atom & 1) if isinstance(atom, int) else st.branch(st.bits_of(atom, 8)[0], 'spec:continuation-bit')
    w0 = st.from_bytes(w[12:14], False)
    odd0 = low_bit(w[13])
    if not odd0:
        out['flags'], out['offset'] = w0, 14
        return out
    w = wire.peek(st, data, 16)
    if w is None:
        return None
    w1 = st.from_bytes(w[14:16], False)
    odd1 = low_bit(w[15])
    if odd1:
        return None     # three or more flag words: outside the grammar clause (no properties are defined there)
    both = mk_int(I(w0) + 65536 * I(w1))
    b0, b1 = st.get_bits(w0), st.get_bits(w1)
    if b0 is not None and b1 is not None:
        st.set_bits(both, b0[0] + b1[0], z3.BoolVal(False))
    out['flags'], out['offset'] = both, 16
    return out


class _PropsView:
    """Adapter: lets props_c.structured() look at (flags, data) of the embedded property list."""

    def __init__(self, c, flags, data):
        self.st, self.ip, self.flags, self.data = c.st, c.ip, flags, data


def payload_makers():
    """Structured content-header payloads: [(label, maker(st) -> rope)] (one or two flag words,
    every presence pattern, every grammar-valid value per flagged property) + an arbitrary one."""
    makers = []
    for (klabel, build) in props_c.unmarshal_instances():
        for words in (1, 2):
            def mk(st, build=build, words=words):
                conds, thunks = build(st)
                chunks = [st.cond_chunk(st.fresh('wprop', sym.BytesS), q, th, length=st.rope_len_term(th())) for q, th in zip(conds, thunks)]
                hdr = [st.new_byte('h') for _ in range(12)]
                u1 = st.fresh_bool('unused_bit_1')
                bits = [words == 2, u1] + [None] * 14
                for q, b in zip(conds, BITS):
                    bits[b] = q
                fw = [st.byte_from_bits(bits[8:16], 'flags_hi'), st.byte_from_bits(bits[0:8], 'flags_lo')]
                if words == 2:
                    lo = [False] + [st.fresh_bool('w1bit') for _ in range(7)]     # second word: continuation bit clear
                    fw += [st.new_byte('w1hi'), st.byte_from_bits(lo, 'w1lo')]
                return hdr + fw + chunks
            makers.append(('%s,%d-flag-word(s)' % (klabel, words), mk))
    return makers


def header_view(c, data):
    """Reference reading of a whole content-header payload, or None."""
    h = parse_header(c, data)
    if h is None:
        return None
    rest = wire.sub(c.st, data, h['offset'], None)
    pv = _PropsView(c, h['flags'], rest)
    m = props_c.structured(pv)
    if m is None:
        return None
    h['consumed'] = mk_int(h['offset'] + z3.Sum([z3.IntVal(0)] + [x.len for x in pv.matched_chunks]))
    return h, m


def expected_header(c, data, before=None):
    """The ContentHeader object the grammar assigns to a payload accepted by header_view."""
    h, (found, rest) = header_view(c, data)
    before = before or {n: ('' if n == 'cluster_id' else None) for n in NAMES}
    props = SObj(props_class(), {NAMES[j]: SCond(cond, props_c.decoded_value(c.st, j, thunk), before.get(NAMES[j]))
                                 for j, (cond, thunk) in enumerate(found)}, provenance='fresh')
    return SObj(header_class(), {'class_id': h['class_id'], 'weight': h['weight'], 'body_size': h['body_size'],
                                 'properties': props}, provenance='fresh')


def unmarshal_contract():
    def view(c):
        h = parse_header(c, c.data)
        if h is None:
            return None
        rest = wire.sub(c.st, c.data, h['offset'], None)
        m = props_c.structured(_PropsView(c, h['flags'], rest))
        if m is None:
            return None
        return h, m

    def good(c):
        return view(c) is not None

    def expected_props(c, found, old_attrs):
        return {NAMES[j]: SCond(cond, props_c.decoded_value(c.st, j, thunk), old_attrs.get(NAMES[j]))
                for j, (cond, thunk) in enumerate(found)}

    def post(c, res):
        h, (found, rest) = view(c)
        a = c.self.attrs
        if res is not None or not isinstance(a.get('properties'), SObj):
            return False
        terms = [values_equal(c.st, a.get(k), h[k])[0] for k in ('class_id', 'weight', 'body_size')]
        before = getattr(c.self, 'props_before', {})
        for n, want in expected_props(c, found, before).items():
            t, e = values_equal(c.st, a['properties'].attrs.get(n), want)
            terms.append(t if e else False)
        return conj(*terms)

    def eff_good(c):
        h, (found, rest) = view(c)
        for k in ('class_id', 'weight', 'body_size'):
            c.self.attrs[k] = h[k]
        p = c.self.attrs['properties']
        p.attrs.update(expected_props(c, found, dict(p.attrs)))

    def eff_bad(c):
        for k in ('class_id', 'weight', 'body_size'):
            c.self.attrs[k] = SOpaque('foreign', c.st.fresh('garbage', sym.ObjS))

    def instances():
        makers = []
        for (klabel, build) in props_c.unmarshal_instances():
            for words in (1, 2):
                def mk(st, name, build=build, words=words):
                    me = SObj(header_class(), {'class_id': None, 'weight': 0, 'body_size': 0,
                                               'properties': default_props(st)}, provenance='param', label=name)
                    me.props_before = dict(me.attrs['properties'].attrs)
                    conds, thunks = build(st)
                    chunks = [st.cond_chunk(st.fresh('wprop', sym.BytesS), q, th, length=st.rope_len_term(th())) for q, th in zip(conds, thunks)]
                    hdr = [st.new_byte('h') for _ in range(12)]
                    u1 = st.fresh_bool('unused_bit_1')
                    bits = [words == 2, u1] + [None] * 14
                    for q, b in zip(conds, BITS):
                        bits[b] = q
                    fw = [st.byte_from_bits(bits[8:16], 'flags_hi'), st.byte_from_bits(bits[0:8], 'flags_lo')]
                    if words == 2:
                        lo = [False] + [st.fresh_bool('w1bit') for _ in range(7)]     # second word: continuation bit clear
                        fw += [st.new_byte('w1hi'), st.byte_from_bits(lo, 'w1lo')]
                    me.data = SBytes(hdr + fw + chunks + [st.new_chunk('rest')])
                    return me
                makers.append(('ContentHeader[%s,%d-flag-word(s)]' % (klabel, words), mk))

        def arbitrary(st, name):
            me = SObj(header_class(), {'class_id': None, 'weight': 0, 'body_size': 0, 'properties': default_props(st)},
                      provenance='param', label=name)
            me.data = SBytes([st.new_chunk('data')])
            return me
        makers.append(('ContentHeader[arbitrary-input]', arbitrary))
        return TSpec(makers)

    def setup(c):
        c.args['data'] = c.self.data

    return Contract(CH + 'unmarshal', [('self', instances()), ('data', T.const(None, 'data'))], setup=setup, cases=[
        Case('grammar-valid-header', when=good, post=post, effects=eff_good),
        Case('anything-else', when=lambda c: not good(c), post=lambda c, r: r is None, effects=eff_bad,
             may_raise=RAISES_DECODE, garbles=True),
    ], pure=False, bounded=False, complete=True,
        doc='C02/C05: class id, weight, body size, then the flagged properties (one or two flag words)')


# ---------------------------------------------------------------- frame level
def header_frame_cases(obj_of):
    def fits(c):
        h = obj_of(c)
        ok = header_ok(c.st, h, leg(c))
        if ok is False or not is_int(c.channel_id):
            return False
        if not c.st.branch(B(ok) if not isinstance(ok, bool) else ok, 'spec:header-encodable'):
            return False
        return conj(in_range(c.channel_id, 0, 65535), lt(wire.blen(c.st, header_bytes(c.st, h, leg(c))), 2 ** 32))

    return [Case('content-header-frame', when=fits,
                 returns=lambda c: wire.frame(c.st, 2, c.channel_id, header_bytes(c.st, obj_of(c), leg(c)))),
            Case('refused', when=lambda c: neg(fits(c)), raises=ENCODE_REFUSALS, need_cover=False)]


def is_header(fn, args):
    return bool(args) and isinstance(args[0], SObj) and args[0].cls is header_class()


def frame_contracts():
    out = []
    out.append(Contract(FRM + '_marshal_content_header_frame', [('value', header_spec()), ('channel_id', T.int)],
                        cases=header_frame_cases(lambda c: c.value), reads=[LEGACY], bounded=False, complete=True))
    out.append(Contract(FRM + 'marshal', [('frame_value', header_spec()), ('channel_id', T.int)],
                        cases=header_frame_cases(lambda c: c.frame_value), reads=[LEGACY], selector=is_header,
                        name=FRM + 'marshal[ContentHeader]', bounded=False, complete=True))
    return out


def unmarshal_header_frame_contract():
    UE = _ue()

    def good(c):
        return header_view(c, c.frame_data) is not None

    def insts():
        out = []
        for label, mk in payload_makers():
            out.append((label, (lambda mk: lambda st, name: SBytes(mk(st)))(mk)))   # exactly the payload, nothing after it
            out.append((label + '+trailing-octets',
                        (lambda mk: lambda st, name: SBytes(mk(st) + [st.new_chunk('trailing')]))(mk)))
        out.append(('arbitrary-octets', lambda st, name: SBytes([st.new_chunk('payload')])))
        return TSpec(out)

    def post_bad(c, r):
        return isinstance(r, SObj) and r.cls is header_class()

    def havoc_bad(c):
        return SObj(header_class(), {'class_id': None, 'weight': None, 'body_size': None,
                                     'properties': props_c.default_like(c.st)}, provenance='fresh')

    return Contract(FRM + '_unmarshal_header_frame', [('frame_data', insts())], cases=[
        Case('content-header', when=good, returns=lambda c: expected_header(c, c.frame_data), fresh_result=True),
        Case('anything-else', when=lambda c: not good(c), post=post_bad, havoc=havoc_bad, may_raise=(UE,), garbles=True),
    ], bounded=False, complete=True,
        doc='C02/C05/C09: the header the grammar assigns, or UnmarshalingException')


def c02_lemmas():
    """C02: decode(encode(header)) and re-encoding, for every presence pattern at once."""
    L = 'contracts.lemmas.'
    out = []

    def req(c):
        h = c.header_value
        props = h.attrs['properties']
        ts_j = NAMES.index('timestamp')
        ts_set, ts_val = describe(c.st, props)[ts_j]
        # C02: timestamps between the epoch and 2106-02-07T06:28:15Z (beyond that the decoder reads milliseconds)
        ts_ok = implies(ts_set, in_range(SInt(wire.dt_seconds(ts_val.t)), 0, 0xFFFFFFFF))
        first = conj(header_ok(c.st, h, leg(c)), in_range(c.channel, 0, 65535), ts_ok,
                     eq(h.attrs['weight'], 0) if is_int(h.attrs['weight']) else False)
        c.st.assume(B(first) if not isinstance(first, bool) else first)
        return lt(wire.blen(c.st, header_bytes(c.st, h, leg(c))), 2 ** 32)

    def norm(st, w, v):
        from contracts.method_frame_c import norm_attr
        if w == 'timestamp':
            return SOpaque('datetime_aware', wire.dt_of_seconds(wire.dt_seconds(v.t)))
        return norm_attr(st, w, v)

    def prop_clause(j):
        """property j comes back iff it was set (non-None, non-empty-string), equal in value and type"""
        def post(c, res):
            st = c.st
            data, (n, ch, obj) = res
            if not (isinstance(obj, SObj) and obj.cls is header_class() and isinstance(obj.attrs.get('properties'), SObj)):
                return False
            src = c.header_value.attrs['properties']
            pres, vals = present_of(st, src)[j], values_of(st, src)[j]
            unset = '' if NAMES[j] == 'cluster_id' else None
            want = SCond(B(pres) if not isinstance(pres, bool) else z3.BoolVal(pres), (lambda: norm(st, TYPES[j], vals)), unset)
            t, e = values_equal(st, obj.attrs['properties'].attrs.get(NAMES[j]), want)
            return t if e else False
        return Case('property:%s' % NAMES[j], post=post)

    def envelope(c, res):
        st = c.st
        data, (n, ch, obj) = res
        if not (isinstance(obj, SObj) and obj.cls is header_class() and
                all(is_int(obj.attrs.get(k)) for k in ('class_id', 'weight', 'body_size'))):
            return False
        return conj(eq(n, wire.blen(st, data)), eq(ch, c.channel), eq(obj.attrs['class_id'], 60),
                    eq(obj.attrs['weight'], 0), eq(obj.attrs['body_size'], c.header_value.attrs['body_size']))

    out.append(Contract(L + 'c02_roundtrip', [('header_value', header_spec()), ('channel', T.int), ('rest', T.bytes)],
                        requires=req, cases=[Case('length-channel-class-id-body-size', post=envelope)]
                        + [prop_clause(j) for j in range(len(NAMES))],
                        reads=[LEGACY], pure=False, bounded=False, complete=True, views={FRM + 'unmarshal': 'g'},
                        doc='C02 round trip'))

    def re_post(c, res):
        data, again = res
        t, e = c.st.rope_eq(data, again)
        return t if e else False

    def re_setup(c):
        """normalised := header_value with every property value replaced by its normalisation"""
        st, h = c.st, c.header_value
        src = h.attrs['properties']
        p2 = SObj(props_class(), {}, provenance='param', label='normalised_properties')
        p2.ident = st.fresh('props', sym.ObjS)
        p2.ghost = {}
        legacy = c.reads['DEPRECATED_RABBITMQ_SUPPORT']
        for n, w, (s_, v) in zip(NAMES, TYPES, describe(st, src)):
            if w == 'table':
                nv = wire.norm_table(st, v, legacy)
            elif w == 'timestamp':
                nv = wire.norm_time(st, v)
            else:
                nv = v
            p2.ghost[n] = (s_, nv)
            p2.attrs[n] = nv if n == 'cluster_id' else SCond(s_, nv, None)
        c.args['normalised'] = SObj(header_class(), {'class_id': 60, 'weight': 0, 'body_size': h.attrs['body_size'],
                                                      'properties': p2}, provenance='param', label='normalised')

    out.append(Contract(L + 'c02_reencode', [('header_value', header_spec()), ('normalised', T.const(None, 'norm')),
                                             ('channel', T.int)],
                        setup=re_setup, requires=req, cases=[Case('re-encoding-reproduces-the-bytes', post=re_post)],
                        reads=[LEGACY], pure=False, bounded=False, complete=True,
                        doc='C02: encode(Norm(h)) == encode(h); with the round-trip lemma (decode(encode(h)) == Norm(h)) '
                            'this is "re-encoding the decoded header reproduces the original bytes"'))
    return out


def register(reg):
    for c in c02_lemmas():
        reg.add(c)
    reg.add(unmarshal_header_frame_contract())
    reg.add(init_contract())
    reg.add(marshal_contract())
    reg.add(get_flags_contract())
    reg.add(unmarshal_contract())
    for c in frame_contracts():
        reg.add(c)
