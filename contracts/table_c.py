"""Field tables and arrays (C03, C05, C10, C11 nested, C12): the real encoders and
decoders against the field-table grammar.  Containers are abstract ghost
sequences; the loops are verified as cuts over the *remaining* elements with
one unfolding of the specification per iteration (pyvc.loops.CutSeqFor), so
there is no bound on length or nesting depth (recursive calls use the
contract)."""
import struct

import z3

from pyvc import sym, lib
from pyvc.contract import Contract, Case, T, TSpec, values_equal, obj_nonempty
from pyvc.dsl import conj, disj, neg, implies, in_range, is_int, eq, le, lt
from pyvc.loops import CutSeqFor, JoinList
from pyvc.sym import I, B, SBytes, SObj, SInt, SBool, SStr, SFloat, SOpaque, Chunk, mk_int, mk_bool, State
from spec import wire

ENC = 'pamqp.encode.'
LEGACY = ('pamqp.encode', 'DEPRECATED_RABBITMQ_SUPPORT', T.bool)
ENCODE_REFUSALS = (TypeError, struct.error, UnicodeEncodeError, OverflowError, ValueError)


def leg(c):
    return c.reads['DEPRECATED_RABBITMQ_SUPPORT']


def legacy_now(ip):
    return ip.st.global_over.get(('pamqp.encode', 'DEPRECATED_RABBITMQ_SUPPORT'), False)


def is_kind(v, kind):
    return isinstance(v, SOpaque) and v.kind == kind


# ---------------------------------------------------------------- encode.field_array
def field_array_loop():
    def seq_of(ip, it):
        return wire.list_items(it.t) if is_kind(it, 'list') else None

    def bind(ip, rem):
        return SOpaque('fv', wire.seq_head(rem))

    def whole(ip, fr):
        return wire.list_items(fr.locals['value'].t)

    def havoc(ip, fr, rem):
        st = ip.st
        lg = B(legacy_now(ip))
        allc = st.new_chunk(term=wire.enc_items(whole(ip, fr), lg))
        pre = st.new_chunk('encoded_so_far')
        st.refine_chunk(allc, [pre, st.new_chunk(term=wire.enc_items(rem, lg))])
        st.assume(wire.items_ok(whole(ip, fr), lg) == wire.items_ok(rem, lg))
        wire.nil_facts(st, rem, legacy_now(ip))
        if st.can(z3.Not(wire.seq_nil(rem))) and not st.can(wire.seq_nil(rem)):
            wire.refine_items(st, rem, legacy_now(ip))
        fr.locals['data'] = JoinList([pre])

    def inv(ip, fr, rem):
        st = ip.st
        lg = B(legacy_now(ip))
        wire.nil_facts(st, rem, legacy_now(ip))
        data = fr.locals['data']
        segs = data.segs if isinstance(data, JoinList) else [x for p in data for x in st.to_rope(p).segs]
        t, exact = st.rope_eq(SBytes(segs + [st.new_chunk(term=wire.enc_items(rem, lg))]),
                              SBytes([st.new_chunk(term=wire.enc_items(whole(ip, fr), lg))]))
        return [('encoded-so-far ++ encoding-of-the-rest == encoding-of-all', t, exact),
                ('the-rest-is-encodable-iff-all-is', wire.items_ok(whole(ip, fr), lg) == wire.items_ok(rem, lg), True)]

    ann = CutSeqFor(seq_of, bind, havoc, inv, doc='join(data) ++ enc_items(rem) == enc_items(all); variant |rem|')
    ann.binds = ('data', 'value')
    return ann


def field_array_contract():
    def ok(c):
        return wire.array_encodable(c.value.t, B(leg(c)))

    def setup(c):
        if is_kind(c.value, 'list'):
            wire.array_bytes(c.st, c.value, leg(c))

    return Contract(ENC + 'field_array', [('value', T.any)], setup=setup, cases=[
        Case('array', when=lambda c: is_kind(c.value, 'list') and ok(c), returns=lambda c: wire.array_bytes(c.st, c.value, leg(c))),
        Case('array-with-unencodable-content', when=lambda c: is_kind(c.value, 'list') and neg(ok(c)), raises=ENCODE_REFUSALS),
        Case('not-a-list', when=lambda c: not is_kind(c.value, 'list'), raises=TypeError),
    ], reads=[LEGACY], loops={(ENC + 'field_array', 0): field_array_loop()}, bounded=False, complete=True,
        doc='C03/C04/C12: 4-octet length, then the values in list order; the list is not modified')


# ---------------------------------------------------------------- encode.field_table
def field_table_loop():
    def seq_of(ip, it):
        if is_kind(it, 'sorted_items'):
            return wire.dict_sorted(it.t)
        if is_kind(it, 'items'):
            return wire.dict_inserted(it.t)      # insertion order: not the order the specification encodes in
        return None

    def bind(ip, rem):
        k = SStr(wire.seq_key(rem))
        ip.st.str_facts(k.t)
        return (k, SOpaque('fv', wire.seq_head(rem)))

    def whole(ip, fr):
        return fr.locals['__table_entries__']

    def havoc(ip, fr, rem):
        st = ip.st
        lg = B(legacy_now(ip))
        allc = st.new_chunk(term=wire.enc_entries(whole(ip, fr), lg))
        pre = st.new_chunk('encoded_so_far')
        st.refine_chunk(allc, [pre, st.new_chunk(term=wire.enc_entries(rem, lg))])
        st.assume(wire.entries_ok(whole(ip, fr), lg) == wire.entries_ok(rem, lg))
        wire.nil_facts(st, rem, legacy_now(ip))
        if not st.can(wire.seq_nil(rem)):
            wire.unfold_entries(st, rem, legacy_now(ip))      # encodability of the first entry (facts only)
            fr.locals['__rem__'] = rem
        fr.locals['data'] = JoinList([pre])

    def inv(ip, fr, rem):
        st = ip.st
        lg = B(legacy_now(ip))
        wire.nil_facts(st, rem, legacy_now(ip))
        prev = fr.locals.get('__rem__')
        if prev is not None and wire.seq_tail(prev).eq(rem):
            # the body ran for the first entry of `prev` without raising: its name is encodable, unfold it now
            wire.refine_entries(st, prev, legacy_now(ip))
        data = fr.locals['data']
        segs = data.segs if isinstance(data, JoinList) else [x for p in data for x in st.to_rope(p).segs]
        t, exact = st.rope_eq(SBytes(segs + [st.new_chunk(term=wire.enc_entries(rem, lg))]),
                              SBytes([st.new_chunk(term=wire.enc_entries(whole(ip, fr), lg))]))
        return [('encoded-so-far ++ encoding-of-the-rest == encoding-of-all', t, exact),
                ('the-rest-is-encodable-iff-all-is', wire.entries_ok(whole(ip, fr), lg) == wire.entries_ok(rem, lg), True)]

    class Loop(CutSeqFor):
        def run_for(self, ip, node, fr, iterable):
            # remember the whole (sorted) entry sequence: the loop rebinds `value`
            if is_kind(iterable, 'sorted_items') or is_kind(iterable, 'items'):
                fr.locals['__table_entries__'] = seq_of(ip, iterable)
            return CutSeqFor.run_for(self, ip, node, fr, iterable)

    ann = Loop(seq_of, bind, havoc, inv, doc='join(data) ++ enc_entries(rem) == enc_entries(sorted entries); variant |rem|')
    ann.binds = ('data', 'value')
    return ann


def field_table_contract():
    def nonempty(c):
        return obj_nonempty(c.value.t)

    def ok(c):
        return wire.table_encodable(c.value.t, B(leg(c)))

    def setup(c):
        if is_kind(c.value, 'dict'):
            wire.table_unfold(c.st, c.value, leg(c))

    isd = lambda c: is_kind(c.value, 'dict')
    return Contract(ENC + 'field_table', [('value', T.any)], setup=setup, cases=[
        Case('no-table', when=lambda c: c.value is None, returns=lambda c: b'\x00\x00\x00\x00'),
        Case('empty-table', when=lambda c: isd(c) and neg(nonempty(c)), returns=lambda c: b'\x00\x00\x00\x00'),
        Case('table', when=lambda c: isd(c) and conj(nonempty(c), ok(c)), returns=lambda c: wire.table_unfold(c.st, c.value, leg(c))),
        Case('table-with-unencodable-content', when=lambda c: isd(c) and conj(nonempty(c), neg(ok(c))), raises=ENCODE_REFUSALS),
        Case('not-a-table', when=lambda c: c.value is not None and not isd(c), raises=TypeError),
    ], reads=[LEGACY], loops={(ENC + 'field_table', 0): field_table_loop()}, bounded=False, complete=True,
        doc='C03/C04/C10/C12: 4-octet length, then (short-string name, value) in ascending name order; names longer than 128 '
            'characters truncated; anything that is neither a dict nor None is refused')


# ---------------------------------------------------------------- encode.encode_table_value
def encode_table_value_contract():
    """Type dispatch: bool before int; the nested encoders by contract.  At call
    sites inside the loops the argument is an abstract field value: the result is
    the specification function enc_value (the typed clauses are its definition)."""
    def lgb(c):
        return B(leg(c))

    cases = []
    # abstract element of a container (call sites only)
    cases.append(Case('element-encodable', when=lambda c: is_kind(c.value, 'fv') and wire.value_ok(c.value.t, lgb(c)),
                      returns=lambda c: SBytes([c.st.new_chunk(term=wire.enc_value(c.value.t, lgb(c)))]), need_cover=False))
    cases.append(Case('element-refused', when=lambda c: is_kind(c.value, 'fv') and neg(wire.value_ok(c.value.t, lgb(c))),
                      raises=ENCODE_REFUSALS, need_cover=False))
    # typed values: the definition of enc_value
    cases.append(Case('bool', when=lambda c: isinstance(c.value, (bool, SBool)),
                      returns=lambda c: wire.cat(c.st, b't', wire.be(c.st, 1, c.value))))
    from contracts.encode_c import table_integer_contract
    tic = table_integer_contract('table_integer', True)
    isint = lambda v: isinstance(v, (int, SInt)) and not isinstance(v, bool)
    for k in tic.cases:
        cases.append(Case('int:' + k.name, when=(lambda k: lambda c: isint(c.value) and k.when(c))(k),
                          returns=k.returns, raises=k.raises))

    def is_float(v):
        return isinstance(v, (float, SFloat))

    def f32_ok(c):
        return lib.f32_fits(c.value.t) if isinstance(c.value, SFloat) else True

    def f32(c):
        ch = c.st.new_chunk(term=lib.f32_bytes(c.value.t))
        c.st.assume(z3.And(ch.len == 4, lib.f32_of(ch.t) == lib.round32(c.value.t)))
        return wire.cat(c.st, b'f', SBytes([ch]))
    cases.append(Case('float', when=lambda c: is_float(c.value) and f32_ok(c), returns=f32))
    cases.append(Case('float-beyond-single-range', when=lambda c: is_float(c.value) and neg(f32_ok(c)), raises=OverflowError))

    def is_str(v):
        return isinstance(v, (str, SStr))

    def str_ok(c):
        return conj(wire.str_encodable(c.st, c.value), lt(wire.blen(c.st, wire.str_utf8(c.st, c.value)), 2 ** 32))
    cases.append(Case('str', when=lambda c: is_str(c.value) and str_ok(c),
                      returns=lambda c: wire.cat(c.st, b'S', wire.long_string(c.st, c.value))))
    cases.append(Case('str-refused', when=lambda c: is_str(c.value) and neg(str_ok(c)),
                      raises=(struct.error, UnicodeEncodeError), need_cover=False))

    def is_time(v):
        return isinstance(v, SOpaque) and v.kind in ('datetime_naive', 'datetime_aware', 'struct_time')

    def secs(c):
        return SInt(wire.dt_seconds(c.value.t))
    cases.append(Case('time', when=lambda c: is_time(c.value) and in_range(secs(c), 0, 2 ** 64 - 1),
                      returns=lambda c: wire.cat(c.st, b'T', wire.be(c.st, 8, secs(c)))))
    cases.append(Case('time-before-epoch', when=lambda c: is_time(c.value) and neg(in_range(secs(c), 0, 2 ** 64 - 1)),
                      raises=struct.error))

    isd = lambda c: is_kind(c.value, 'dict')
    d_ok = lambda c: z3.Or(z3.Not(obj_nonempty(c.value.t)), wire.table_encodable(c.value.t, lgb(c)))

    def table(c):
        if not c.st.branch(obj_nonempty(c.value.t), 'spec:table-nonempty'):
            return b'F\x00\x00\x00\x00'
        return wire.cat(c.st, b'F', wire.table_unfold(c.st, c.value, leg(c)))
    cases.append(Case('dict', when=lambda c: isd(c) and d_ok(c), returns=table))
    cases.append(Case('dict-refused', when=lambda c: isd(c) and neg(d_ok(c)), raises=ENCODE_REFUSALS))

    isl = lambda c: is_kind(c.value, 'list')
    l_ok = lambda c: wire.array_encodable(c.value.t, lgb(c))
    cases.append(Case('list', when=lambda c: isl(c) and l_ok(c),
                      returns=lambda c: wire.cat(c.st, b'A', wire.array_bytes(c.st, c.value, leg(c)))))
    cases.append(Case('list-refused', when=lambda c: isl(c) and neg(l_ok(c)), raises=ENCODE_REFUSALS))

    isba = lambda v: isinstance(v, bytearray) or (isinstance(v, SBytes) and v.mutable)
    ba_ok = lambda c: lt(wire.blen(c.st, c.value), 2 ** 32)
    cases.append(Case('bytearray', when=lambda c: isba(c.value) and ba_ok(c),
                      returns=lambda c: wire.cat(c.st, b'x', wire.be(c.st, 4, wire.blen(c.st, c.value)), c.value)))
    cases.append(Case('bytearray-too-long', when=lambda c: isba(c.value) and neg(ba_ok(c)), raises=struct.error, need_cover=False))
    cases.append(Case('none', when=lambda c: c.value is None, returns=lambda c: b'V'))

    is_dec = lambda v: is_kind(v, 'decimal')
    cases.append(Case('decimal', when=lambda c: is_dec(c.value) and wire.decimal_ok(c.value),
                      returns=lambda c: wire.cat(c.st, b'D', wire.decimal_bytes(c.st, c.value))))
    cases.append(Case('decimal-refused', when=lambda c: is_dec(c.value) and neg(wire.decimal_ok(c.value)),
                      raises=ENCODE_REFUSALS))

    def other(c):
        v = c.value
        return not (isinstance(v, (bool, SBool, int, SInt, float, SFloat, str, SStr)) or v is None or isba(v)
                    or is_time(v) or is_dec(v) or is_kind(v, 'dict') or is_kind(v, 'list') or is_kind(v, 'fv'))
    cases.append(Case('unsupported-type', when=other, raises=TypeError))

    def setup(c):
        if is_kind(c.value, 'dict'):
            wire.table_unfold(c.st, c.value, leg(c))
        if is_kind(c.value, 'list'):
            wire.array_bytes(c.st, c.value, leg(c))

    return Contract(ENC + 'encode_table_value', [('value', T.any)], setup=setup, cases=cases, reads=[LEGACY], bounded=False,
                    complete=True,
                    doc='C03/C04/C10/C11: type tag + value; bool before int; smallest-fitting integer type; anything else TypeError')




# ================================================================ decoders
DEC = 'pamqp.decode.'
RAISES_DECODE = (struct.error, ValueError, OverflowError)
from pyvc.loops import CutWhile   # noqa: E402


def weakest(raises):
    from contracts.decode_c import weakest as w
    return w(raises)


def leading_wf(c, pred):
    st = c.st
    if not isinstance(c.value, SBytes):
        return None
    segs = st.expand(c.value.segs)
    while segs and isinstance(segs[0], Chunk) and st.must(segs[0].len == 0):
        segs = segs[1:]
    if segs and isinstance(segs[0], Chunk) and segs[0].key() not in st.cond_defs and st.must(pred(segs[0].t)):
        return segs[0]
    return None


def embedded_value_contract():
    def opaque(c):
        return leading_wf(c, wire.wf_value)

    def parsed(c):
        return wire.parse_value(c.st, c.value)

    def good(c):
        if opaque(c) is not None:
            return False
        r = parsed(c)
        return r[2] if isinstance(r, tuple) else False

    def empty(c):
        return opaque(c) is None and eq(wire.blen(c.st, c.value), 0)

    def unknown(c):
        return opaque(c) is None and parsed(c) == 'unknown-tag'

    def other(c):
        if opaque(c) is not None:
            return False
        r = parsed(c)
        if r == 'unknown-tag':
            return False
        if r is None:
            return neg(eq(wire.blen(c.st, c.value), 0))
        return neg(r[2])

    def havoc(c):
        n = c.st.fresh_int('consumed')
        c.st.assume(n >= 1)
        return (SInt(n), SOpaque('foreign', c.st.fresh('garbage', sym.ObjS)))

    return Contract(DEC + 'embedded_value', [('value', T.bytes)], cases=[
        Case('element-of-a-grammar-valid-container', when=lambda c: opaque(c) is not None,
             returns=lambda c: (mk_int(opaque(c).len), SOpaque('fv', wire.value_obj(opaque(c).t))), need_cover=False),
        Case('nothing-left', when=empty, returns=lambda c: (0, None)),
        Case('grammar-valid-value', when=good, returns=lambda c: (parsed(c)[1], parsed(c)[0]), fresh_result=True),
        Case('unknown-type-tag', when=unknown, raises=ValueError),
        Case('anything-else', when=other, havoc=havoc, post=lambda c, r: isinstance(r, tuple) and len(r) == 2 and is_int(r[0]),
             may_raise=RAISES_DECODE, garbles=True),
    ], bounded=True, complete=True, fallback=weakest(RAISES_DECODE),
        doc='C03/C05/C09: one field value by its type tag (19 tags); unknown tag -> ValueError')


def dict_term(st, d):
    if isinstance(d, SOpaque):
        return d.t
    if isinstance(d, dict) and not d:
        return wire.EMPTY_DICT
    raise sym.OutOfSubset('dict with concrete entries in an abstract fold')


def list_term(st, l):
    if isinstance(l, SOpaque):
        return l.t
    if isinstance(l, list) and not l:
        return wire.EMPTY_LIST
    raise sym.OutOfSubset('list with concrete items in an abstract fold')


def obj_of_value(st, v):
    """An abstract object for a decoded value (only its identity matters in the folds)."""
    if isinstance(v, SOpaque) and v.t is not None:
        return v.t
    return st.fresh('decoded_value', sym.ObjS)


def table_loop(kind):
    """while offset < end: ...   for decode.field_table ('table') and decode.field_array ('array')."""
    endvar = 'field_table_end' if kind == 'table' else 'field_array_end'
    bytes_of = wire.w_entries_bytes if kind == 'table' else wire.w_items_bytes
    fold = wire.apply_entries if kind == 'table' else wire.append_items
    term_of = dict_term if kind == 'table' else list_term

    def ghost(fr):
        return fr.locals.get('__ghost__')     # (ws, rest chunk) for a grammar-valid instance

    def havoc(ip, fr):
        st = ip.st
        g = ghost(fr)
        fr.locals['__stage__'] = 1
        if g is None:
            off = st.fresh_int('offset')
            st.assume(off >= 4)
            fr.locals['offset'] = SInt(off)
            fr.locals['__offset_at_iteration_start__'] = SInt(off)
            fr.locals['data'] = SOpaque('dict' if kind == 'table' else 'list', st.fresh('decoded_so_far', sym.ObjS))
            return
        ws = g
        rem = st.fresh('remaining', sym.ObjS)
        wire.w_nil_facts(st, rem)
        allc = st.new_chunk(term=bytes_of(ws))
        pre = st.new_chunk('decoded_octets')
        remc = st.new_chunk(term=bytes_of(rem))
        st.refine_chunk(allc, [pre, remc])
        d = st.fresh('decoded_so_far', sym.ObjS)
        st.assume(fold(rem, d) == fold(ws, wire.EMPTY_DICT if kind == 'table' else wire.EMPTY_LIST))
        st.assume(z3.Implies(wire.seq_nil(rem), fold(rem, d) == d))
        fr.locals['offset'] = mk_int(4 + pre.len)
        fr.locals['data'] = SOpaque('dict' if kind == 'table' else 'list', d)
        fr.locals['__rem__'] = rem
        # a non-empty rest: one unfolding (name, value, tail)
        if st.branch(z3.Not(wire.seq_nil(rem)), 'cut:remaining-entries'):
            if kind == 'table':
                k, v = wire.w_unfold_entries(st, rem)
                key = wire.utf8_str(st, SBytes([k]))
                st.assume(wire.apply_entries(rem, d) == wire.apply_entries(
                    wire.seq_tail(rem), wire.dict_set(d, st.str_term(key), wire.value_obj(v.t))))
            else:
                v = wire.w_unfold_items(st, rem)
                st.assume(wire.append_items(rem, d) == wire.append_items(wire.seq_tail(rem), wire.list_snoc(d, wire.value_obj(v.t))))

    def inv(ip, fr):
        st = ip.st
        g = ghost(fr)
        fl = fr.locals
        if not is_int(fl.get('offset')):
            return [('offset-is-an-integer', False, True)]
        if g is None:
            out = [('offset-past-the-length-prefix', le(4, fl['offset']), True)]
            start = fl.get('__offset_at_iteration_start__')
            if fl.get('__stage__', 0) == 1 and start is not None:
                # C08 progress: a completed iteration read at least one octet that exists, so there are at most
                # len(value) iterations whatever the declared length says
                out.append(('the-iteration-consumed-an-octet-that-exists',
                            conj(lt(start, st.rope_len_term(fl['value'])), lt(start, fl['offset'])), True))
            return out
        ws = g
        stage = fl.get('__stage__', 0)
        rem = ws if stage == 0 else wire.seq_tail(fl['__rem__'])
        wire.w_nil_facts(st, rem)
        remc = st.new_chunk(term=bytes_of(rem))
        init = wire.EMPTY_DICT if kind == 'table' else wire.EMPTY_LIST
        out = [('offset + len(encoding of the rest) == end', eq(I(fl['offset']) + remc.len, fl[endvar]), True),
               ('decoded-so-far-then-the-rest == the-whole', fold(rem, term_of(st, fl['data'])) == fold(ws, init), True)]
        # the rest starts at `offset` in value
        _, right = st.split_at(st.expand(st.to_rope(fl['value']).segs), fl['offset'], 'inv:offset')
        right = st.expand(right)
        starts = bool(right) and isinstance(right[0], Chunk) and right[0].t.eq(remc.t) or st.must(remc.len == 0)
        if not starts:
            # after unfolding, the rest may itself be expanded: compare prefixes
            exp = st.expand([remc])
            starts = len(right) >= len(exp) and all(
                (isinstance(a, Chunk) and isinstance(b, Chunk) and a.t.eq(b.t)) or
                (not isinstance(a, Chunk) and not isinstance(b, Chunk) and (a is b or (not isinstance(a, int) and not isinstance(b, int) and a.eq(b)) or a == b))
                for a, b in zip(right, exp))
        out.append(('the-rest-of-the-encoding-starts-at-offset', bool(starts), True))
        return out

    def variant(ip, fr):
        return mk_int(I(fr.locals[endvar]) - I(fr.locals['offset']))

    ann = CutWhile(0, havoc, inv, variant, doc='remaining octets == encoding of the remaining entries; variant end - offset')
    ann.binds = ('offset', 'data', 'value', endvar)
    return ann


def container_decoder(kind, total=False):
    """decode.field_table / decode.field_array, verified against the grammar:
    instance (g): 4-octet length, then a grammar-valid entry / value sequence, then anything;
    instance (t): arbitrary octets (termination, progress, closed exception set)."""
    name = 'field_table' if kind == 'table' else 'field_array'
    parse = wire.parse_table if kind == 'table' else wire.parse_array
    wf = wire.wf_table if kind == 'table' else wire.wf_array
    unfold = wire.wf_table_unfold if kind == 'table' else wire.wf_array_unfold
    seq = wire.w_entries if kind == 'table' else wire.w_items
    pykind = 'dict' if kind == 'table' else 'list'

    def parsed(c):
        return parse(c.st, c.value)

    def good(c):
        r = parsed(c)
        return False if r is None else r[2]

    def out(c):
        total, value, cond = parsed(c)
        return (total, value)

    def havoc(c):
        n = c.st.fresh_int('consumed')
        c.st.assume(n >= 0)
        return (SInt(n), SOpaque(pykind, c.st.fresh('decoded_' + pykind, sym.ObjS)))

    def mk_g(st, name_):
        w = st.fresh('wire_' + kind, sym.BytesS)
        st.assume(wf(w))
        c = unfold(st, w)
        st.assume(c.len > 4)      # (an empty container is four zero octets: see the empty instance)
        st.loop_ghost_pending = seq(w)
        return SBytes([c, st.new_chunk('rest')])

    def mk_empty(st, name_):
        return SBytes([0, 0, 0, 0, st.new_chunk('rest')])

    def setup(c):
        c.st.loop_ghost = getattr(c.st, 'loop_ghost_pending', None)

    def samples(rng, n):
        """grammar-generated containers and fault-injected variants (bounded stand-in behind a sat verdict)"""
        from spec import ref
        out = [b'', b'\x00\x00\x00\x01', b'\x00\x00\x00\x05t', b'\xff\xff\xff\xff']
        for _ in range(6):
            try:
                good = ref.enc_table(ref.gen_table(rng, 2)) if kind == 'table' else ref.enc_value(
                    [ref.gen_value(rng, 2) for _ in range(rng.randrange(0, 4))])[1:]
            except ref.Refused:
                continue
            out.append(good)
            out.extend(ref.faulty(rng, good)[:20])
        return out

    if total:
        insts = TSpec([('arbitrary-octets', lambda st, n: SBytes([st.new_chunk(n)]), samples)])
    else:
        insts = TSpec([('grammar-valid-' + kind, mk_g), ('empty-' + kind, mk_empty)])

    class Loop(CutWhile):
        pass

    lp = table_loop(kind)
    orig_run = lp.run_while

    def run_while(ip, node, fr):
        fr.locals['__ghost__'] = getattr(ip.st, 'loop_ghost', None)
        fr.locals['__stage__'] = 0
        return orig_run(ip, node, fr)
    lp.run_while = run_while

    return Contract(DEC + name, [('value', insts)], setup=setup, cases=[
        Case('grammar-valid-' + kind, when=good, returns=out, fresh_result=True),
        Case('anything-else', when=lambda c: neg(good(c)), havoc=havoc, garbles=True,
             post=lambda c, r: isinstance(r, tuple) and len(r) == 2 and is_int(r[0]), may_raise=RAISES_DECODE),
    ], loops={(DEC + name, 0): lp}, bounded=True, complete=True, fallback=weakest(RAISES_DECODE),
        name=DEC + name + ('(t)' if total else ''), selector=(lambda fn, args: False) if total else None,
        check_cases={'anything-else'} if total else {'grammar-valid-' + kind},
        doc='C03/C05/C08/C09: the container the grammar denotes; always terminates (variant end - offset). '
            'The grammar clause is verified on octets *constructed* as a grammar-valid container (wf_%s is that '
            'structure by definition), the other clause and the loop variant on arbitrary octets.' % kind)


def register(reg):
    reg.add(field_array_contract())
    reg.add(field_table_contract())
    reg.add(encode_table_value_contract())
    reg.add(embedded_value_contract())
    reg.add(container_decoder('table'))
    reg.add(container_decoder('array'))
    reg.add(container_decoder('table', total=True))
    reg.add(container_decoder('array', total=True))
    reg.add(c03_lemma())


# ================================================================ C03 round-trip lemma (per type class)
def c03_lemma():
    """decode(encode(v) ++ rest) consumes exactly the encoding and returns Norm(v) with the same Python type."""
    L = 'contracts.lemmas.c03_roundtrip'
    S64 = (-2 ** 63, 2 ** 63 - 1)
    domain = (T.bool | T.int | T.float | T.decimal | T.str | T.bytearray | T.dt_naive | T.dt_aware | T.struct_time
              | T.none | T.list | T.dict)

    def req(c):
        st, v = c.st, c.value
        lg = B(leg(c))
        if isinstance(v, SInt):
            return in_range(v, *S64)
        if isinstance(v, SFloat):
            return lib.f32_fits(v.t)
        if is_kind(v, 'decimal'):
            return wire.decimal_ok(v)
        if isinstance(v, SStr):
            return conj(wire.str_encodable(st, v), lt(wire.blen(st, wire.str_utf8(st, v)), 2 ** 32))
        if isinstance(v, SBytes):
            return lt(wire.blen(st, v), 2 ** 32)
        if isinstance(v, SOpaque) and v.kind in ('datetime_naive', 'datetime_aware', 'struct_time'):
            return in_range(SInt(wire.dt_seconds(v.t)), 0, 0xFFFFFFFF)     # C03: between the epoch and 2106
        if is_kind(v, 'list'):
            wire.array_bytes(st, v, leg(c))
            # the container round trip (spec-level composition of the verified encoder and decoder contracts)
            t = wire.enc_array(v.t, lg)
            st.assume(z3.Implies(wire.array_encodable(v.t, lg),
                                 z3.And(wire.wf_array(t), wire.dec_array(t) == wire.norm_value(v.t))))
            return wire.array_encodable(v.t, lg)
        if is_kind(v, 'dict'):
            wire.table_unfold(st, v, leg(c))
            t = wire.enc_table(v.t, lg)
            st.assume(z3.Implies(wire.table_encodable(v.t, lg),
                                 z3.And(wire.wf_table(t), wire.dec_table(t) == wire.norm_value(v.t))))
            return conj(obj_nonempty(v.t), wire.table_encodable(v.t, lg))
        return True

    def norm(c):
        st, v = c.st, c.value
        if isinstance(v, SFloat):
            return SFloat(lib.round32(v.t))
        if isinstance(v, SOpaque) and v.kind in ('datetime_naive', 'datetime_aware', 'struct_time'):
            return SOpaque('datetime_aware', wire.dt_of_seconds(wire.dt_seconds(v.t)))
        if is_kind(v, 'list') or is_kind(v, 'dict'):
            return SOpaque(v.kind, wire.norm_value(v.t))
        if is_kind(v, 'decimal'):
            return SOpaque('decimal', wire.decimal_of(wire.dec_unscaled(v.t), wire.dec_scale(v.t)))
        return v

    def post(c, res):
        st = c.st
        data, (consumed, got) = res
        v = c.value
        if is_kind(v, 'list') and isinstance(got, list) and not got:
            # the empty list comes back as the empty list
            return conj(eq(consumed, wire.blen(st, data)), wire.seq_nil(wire.list_items(v.t)))
        t, e = values_equal(st, got, norm(c))
        return conj(eq(consumed, wire.blen(st, data)), t if e else False)

    return Contract(L, [('value', domain), ('rest', T.bytes)], requires=req,
                    cases=[Case('consumes-the-encoding-and-returns-the-normalised-value-with-its-type', post=post)],
                    reads=[LEGACY], pure=False, bounded=False, complete=True,
                    doc='C03: bool stays bool, negative numbers keep their sign, strings / byte arrays identical, floats rounded '
                        'to single precision, datetimes truncated to whole seconds in UTC, containers element-wise')
