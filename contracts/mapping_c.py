"""C19: the mapping protocol of base._AMQData, per class (64 methods +
Basic.Properties), against the ordered argument names of the *specification
table*.  Attribute values are arbitrary (opaque) Python values."""
import z3

from pyvc import sym
from pyvc.contract import Contract, Case, T, TSpec
from pyvc.dsl import conj, disj, neg
from pyvc.sym import SObj, SOpaque, SStr, B
from spec import tables

BASE = 'pamqp.base._AMQData.'


def classes():
    """[(label, real class, [(name, wire type)])]"""
    from pamqp import commands
    out = []
    for m in tables.METHODS:
        out.append((m.name, getattr(getattr(commands, m.pyclass), m.pymethod), [(f.name, f.wire) for f in m.fields]))
    out.append(('Basic.Properties', commands.Basic.Properties, [(n, w) for n, _, w in tables.PROPERTIES]))
    return out


def any_self(label, cls, fields):
    def mk(st, name):
        return SObj(cls, {n: SOpaque('foreign', st.fresh('any_' + n, sym.ObjS)) for n, _ in fields},
                    provenance='param', label=name)
    return TSpec([(label, mk)])


def sel(cls):
    def s(fn, args):
        a = args[0] if args else None
        return (isinstance(a, SObj) and a.cls is cls) or a is cls
    return s


def contracts_for(label, cls, fields):
    names = [n for n, _ in fields]
    me = any_self(label, cls, fields)
    out = []
    out.append(Contract(BASE + '__iter__', [('self', me)], selector=sel(cls), bounded=False,
                        name='%s__iter__[%s]' % (BASE, label),
                        cases=[Case('names-in-wire-order-with-current-values',
                                    returns=lambda c: [(n, c.self.attrs[n]) for n in names])]))
    out.append(Contract(BASE + '__len__', [('self', me)], selector=sel(cls), bounded=False,
                        name='%s__len__[%s]' % (BASE, label),
                        cases=[Case('number-of-arguments', returns=lambda c: len(names))]))

    def member(c):
        item = c.item
        if isinstance(item, str):
            return item in names
        return disj(*[B(c.st.str_eq(item, n)) if not isinstance(c.st.str_eq(item, n), bool) else c.st.str_eq(item, n)
                      for n in names])

    item_spec = T.str
    for n in names[:2]:
        item_spec = item_spec | T.const(n)
    out.append(Contract(BASE + '__contains__', [('self', me), ('item', item_spec)], selector=sel(cls), bounded=False,
                        name='%s__contains__[%s]' % (BASE, label),
                        cases=[Case('member', when=member, returns=lambda c: True, need_cover=bool(names)),
                               Case('not-a-member', when=lambda c: neg(member(c)), returns=lambda c: False)]))
    if names:
        key_spec = TSpec([(n, (lambda n: lambda st, nm: n)(n)) for n in names])
        out.append(Contract(BASE + '__getitem__', [('self', me), ('item', key_spec)], selector=sel(cls), bounded=False,
                            name='%s__getitem__[%s]' % (BASE, label),
                            cases=[Case('the-attribute', returns=lambda c: c.self.attrs[c.item])]))
        out.append(Contract(BASE + 'amqp_type', [('cls', T.const(cls, label)), ('attr', key_spec)], selector=sel(cls),
                            bounded=False, name='%samqp_type[%s]' % (BASE, label),
                            cases=[Case('wire-type', returns=lambda c: dict(fields)[c.attr])]))
    out.append(Contract(BASE + 'attributes', [('cls', T.const(cls, label))], selector=sel(cls), bounded=False,
                        name='%sattributes[%s]' % (BASE, label),
                        cases=[Case('names-in-wire-order', returns=lambda c: list(names))]))
    return out


def register(reg):
    for label, cls, fields in classes():
        for c in contracts_for(label, cls, fields):
            reg.add(c)


def names():
    out = []
    for label, cls, fields in classes():
        out.extend(c.name for c in contracts_for(label, cls, fields))
    return out
