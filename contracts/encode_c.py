"""Sidecar contracts for pamqp/encode.py (nothing in /repo is annotated).

Top-level postconditions are transcribed from the property statements
(C04/C10/C11); helper contracts are as strong as the code allows (exact
result bytes, exact exception class)."""
import struct

import z3

from pyvc import sym
from pyvc.contract import Contract, Case, T, TSpec, not_types
from pyvc.dsl import conj, disj, neg, in_range, is_int, le, lt, eq
from pyvc.sym import I, B, SBytes
from spec import wire

ENC = 'pamqp.encode'
LEGACY = (ENC, 'DEPRECATED_RABBITMQ_SUPPORT', T.bool)


def fixed_int_encoder(name, lo, hi, width, signed, range_error):
    """Fixed-width integer encoders: exact bytes in range; the stated
    exception class outside; TypeError for non-integers."""
    def ok(c):
        return conj(is_int(c.value), in_range(c.value, lo, hi)) if is_int(c.value) else False

    def bad(c):
        return neg(in_range(c.value, lo, hi)) if is_int(c.value) else False

    def out(c):
        return (wire.sbe if signed else wire.be)(c.st, width, c.value)

    return Contract(
        '%s.%s' % (ENC, name), [('value', T.any)],
        cases=[Case('not-an-int', when=lambda c: not is_int(c.value), raises=TypeError),
               Case('out-of-range', when=bad, raises=range_error),
               Case('in-range', when=ok, returns=out)],
        doc='C11/C04: %s-bit %s big-endian; out of range -> %s' % (
            8 * width, 'signed' if signed else 'unsigned', range_error.__name__))


def table_integer_contract(name, reads_global, target=None, params=None, legacy_of=None, only_modes=None):
    """C11, from the statement: first fitting rung of b,s,u,I,i,l (legacy:
    b,s,I,l); integers outside [-2^63, 2^63-1] refused with TypeError."""
    cases = []
    if legacy_of is None:
        legacy_of = lambda c: c.reads['DEPRECATED_RABBITMQ_SUPPORT']

    def mk_case(mode, idx, rung):
        rungs = wire.ladder(mode)

        def when(c):
            n = c.value
            g = [in_range(n, rung[1], rung[2])]
            for earlier in rungs[:idx]:
                g.append(neg(in_range(n, earlier[1], earlier[2])))
            if reads_global:
                leg = legacy_of(c)
                g.append(leg if mode else neg(leg))
            return conj(*g)

        return Case('%s-tag-%s' % ('legacy' if mode else 'full', rung[0]), when=when,
                    returns=lambda c: wire.tag_int_rung(c.st, c.value, rung))

    modes = (False, True) if reads_global else (True,)
    if only_modes is not None:
        modes = only_modes
    for mode in modes:
        for idx, rung in enumerate(wire.ladder(mode)):
            cases.append(mk_case(mode, idx, rung))
    cases.append(Case('refused', when=lambda c: neg(in_range(c.value, *wire.S64)), raises=TypeError))
    return Contract(target or '%s.%s' % (ENC, name), params or [('value', T.int | T.bool)], cases=cases,
                    reads=[LEGACY] if (reads_global and params is None) else [],
                    doc='C11 ladder', pure=params is None, bounded=params is None)


def switch_contract():
    """support_deprecated_rabbitmq(enabled=True): stores its argument in the
    module switch and touches nothing else; the default argument is True."""
    def post(c, result):
        st = c.st
        ws = [w for w in st.global_writes if w[0] == ENC and w[1] == 'DEPRECATED_RABBITMQ_SUPPORT']
        others = [w for w in st.global_writes if not (w[0] == ENC and w[1] == 'DEPRECATED_RABBITMQ_SUPPORT')]
        if result is not None or others or len(ws) != 1:
            return False
        return I(ws[0][2]) == I(c.enabled) if sym.is_intlike(ws[0][2]) else False

    def effects(c):
        c.st.global_writes.append((ENC, 'DEPRECATED_RABBITMQ_SUPPORT', c.enabled))
        c.st.global_over[(ENC, 'DEPRECATED_RABBITMQ_SUPPORT')] = c.enabled

    return Contract(ENC + '.support_deprecated_rabbitmq', [('enabled', T.bool)],
                    cases=[Case('sets-switch', post=post, effects=effects)], pure=False,
                    modifies=['DEPRECATED_RABBITMQ_SUPPORT'])


def simple_encoders():
    """boolean, byte_array, double, floating_point, the two string encoders."""
    from pyvc import lib
    from pyvc.sym import SFloat, SStr, SBool
    import z3 as _z3
    out = []
    is_bool = lambda v: isinstance(v, (bool, SBool))
    out.append(Contract(ENC + '.boolean', [('value', T.any)], cases=[
        Case('bool', when=lambda c: is_bool(c.value), returns=lambda c: wire.be(c.st, 1, c.value)),
        Case('not-a-bool', when=lambda c: not is_bool(c.value), raises=TypeError)],
        doc='C04: one octet 0/1; only bool accepted'))

    is_ba = lambda v: isinstance(v, bytearray) or (isinstance(v, SBytes) and v.mutable)
    fits32 = lambda c: wire.blen(c.st, c.value) < 2 ** 32 if isinstance(wire.blen(c.st, c.value), int) else I(wire.blen(c.st, c.value)) < 2 ** 32
    out.append(Contract(ENC + '.byte_array', [('value', T.any)], cases=[
        Case('bytearray', when=lambda c: is_ba(c.value) and fits32(c),
             returns=lambda c: wire.cat(c.st, wire.be(c.st, 4, wire.blen(c.st, c.value)), c.value)),
        Case('too-long', when=lambda c: is_ba(c.value) and neg(fits32(c)), raises=struct.error),
        Case('not-a-bytearray', when=lambda c: not is_ba(c.value), raises=TypeError)],
        doc='C04: 4-octet length + octets; only bytearray accepted'))

    is_float = lambda v: isinstance(v, (float, SFloat))

    def f64(c):
        if isinstance(c.value, float):
            return struct.pack('>d', c.value)
        ch = c.st.new_chunk(term=lib.f64_bytes(c.value.t))
        c.st.assume(_z3.And(ch.len == 8, lib.f64_of(ch.t) == c.value.t))
        return SBytes([ch])

    def f32(c):
        if isinstance(c.value, float):
            return struct.pack('>f', c.value)
        ch = c.st.new_chunk(term=lib.f32_bytes(c.value.t))
        c.st.assume(_z3.And(ch.len == 4, lib.f32_of(ch.t) == lib.round32(c.value.t)))
        return SBytes([ch])

    def fits_f32(c):
        if isinstance(c.value, float):
            try:
                struct.pack('>f', c.value)
                return True
            except OverflowError:
                return False
        return lib.f32_fits(c.value.t)

    out.append(Contract(ENC + '.double', [('value', T.any)], cases=[
        Case('float', when=lambda c: is_float(c.value), returns=f64),
        Case('not-a-float', when=lambda c: not is_float(c.value), raises=TypeError)],
        doc='C04: IEEE double (packing itself is assumption A3)'))
    out.append(Contract(ENC + '.floating_point', [('value', T.any)], cases=[
        Case('float-in-single-range', when=lambda c: is_float(c.value) and fits_f32(c), returns=f32),
        Case('float-beyond-single-range', when=lambda c: is_float(c.value) and neg(fits_f32(c)), raises=OverflowError),
        Case('not-a-float', when=lambda c: not is_float(c.value), raises=TypeError)],
        doc='C04/C10: IEEE single; values beyond the single range are refused (OverflowError)'))

    is_str = lambda v: isinstance(v, (str, SStr))

    def string_contract(name, width, params, sval):
        limit = 256 ** width

        def ulen(c):
            return wire.blen(c.st, wire.str_utf8(c.st, sval(c)))

        def ok(c):
            if not is_str(sval(c)):
                return False
            return conj(wire.str_encodable(c.st, sval(c)), lt(ulen(c), limit))

        def too_long(c):
            if not is_str(sval(c)):
                return False
            return conj(wire.str_encodable(c.st, sval(c)), neg(lt(ulen(c), limit)))

        def unenc(c):
            if not is_str(sval(c)):
                return False
            return neg(wire.str_encodable(c.st, sval(c)))

        def enc(c):
            u = wire.str_utf8(c.st, sval(c))
            return wire.cat(c.st, wire.be(c.st, width, wire.blen(c.st, u)), u)

        return Contract(ENC + '.' + name, params, cases=[
            Case('text', when=ok, returns=enc),
            Case('too-long-for-the-length-prefix', when=too_long, raises=struct.error),
            Case('not-encodable-as-utf-8', when=unenc, raises=UnicodeEncodeError),
            Case('not-a-str', when=lambda c: not is_str(sval(c)), raises=TypeError)],
            doc='C04/C10: %d-octet length prefix + UTF-8 octets; oversize refused, never truncated' % width)

    # _string(encoder, value): helper contract derived from the code -- the length is packed with
    # whatever struct the caller passes (format read from the real common.Struct object)
    def helper_contract():
        from pamqp import common

        def fmt(c):
            (code, size, signed), = sym.parse_format(c.encoder.format)
            hi = 2 ** (8 * size - 1) - 1 if signed else 2 ** (8 * size) - 1
            return size, signed, hi

        def ulen(c):
            return wire.blen(c.st, wire.str_utf8(c.st, c.value))

        def ok(c):
            if not is_str(c.value):
                return False
            return conj(wire.str_encodable(c.st, c.value), le(ulen(c), fmt(c)[2]))

        def too_long(c):
            if not is_str(c.value):
                return False
            return conj(wire.str_encodable(c.st, c.value), neg(le(ulen(c), fmt(c)[2])))

        def enc(c):
            size, signed, hi = fmt(c)
            u = wire.str_utf8(c.st, c.value)
            return wire.cat(c.st, (wire.sbe if signed else wire.be)(c.st, size, wire.blen(c.st, u)), u)

        encs = TSpec([('Struct.byte', lambda st, n: common.Struct.byte), ('Struct.integer', lambda st, n: common.Struct.integer)])
        return Contract(ENC + '._string', [('encoder', encs), ('value', T.any)], cases=[
            Case('text', when=ok, returns=enc),
            Case('too-long', when=too_long, raises=struct.error),
            Case('not-encodable', when=lambda c: is_str(c.value) and neg(wire.str_encodable(c.st, c.value)), raises=UnicodeEncodeError),
            Case('not-a-str', when=lambda c: not is_str(c.value), raises=TypeError)], bounded=False)

    out.append(helper_contract())
    out.append(string_contract('short_string', 1, [('value', T.any)], lambda c: c.value))
    out.append(string_contract('long_string', 4, [('value', T.any)], lambda c: c.value))
    return out


def abstract_encoders():
    """field_table / field_array / timestamp as used by the per-class and
    property contracts: opaque specification functions (assumed here; the
    functions themselves are verified against the grammar separately)."""
    from pyvc.sym import SOpaque, SInt
    from pyvc.contract import obj_nonempty
    out = []
    leg = lambda c: c.reads['DEPRECATED_RABBITMQ_SUPPORT']
    RAISES = (TypeError, struct.error, UnicodeEncodeError, OverflowError, ValueError)

    is_dict = lambda v: isinstance(v, dict) or (isinstance(v, SOpaque) and v.kind == 'dict')

    def t_nonempty(c):
        v = c.value
        if isinstance(v, dict):
            return bool(v)
        return obj_nonempty(v.t)

    def t_ok(c):
        return wire.table_encodable(c.value.t, B(leg(c)))

    import datetime as _dtm
    import time as _tm

    def is_time(v):
        return (isinstance(v, SOpaque) and v.kind in ('datetime_naive', 'datetime_aware', 'struct_time')) or \
            isinstance(v, (_dtm.datetime, _tm.struct_time))

    def secs(c):
        if isinstance(c.value, (_dtm.datetime, _tm.struct_time)):
            from spec import ref
            s = ref.seconds(c.value)
            if isinstance(c.value, _dtm.datetime) and s < 0 and c.value.microsecond:
                s += 1          # int() truncates toward zero: a pre-epoch fraction rounds up (I2)
            return s
        return SInt(wire.dt_seconds(c.value.t))
    out.append(Contract(ENC + '.timestamp', [('value', T.dt_naive | T.dt_aware | T.struct_time | T.int | T.str | T.none)], cases=[
        Case('instant', when=lambda c: is_time(c.value) and in_range(secs(c), 0, 2 ** 64 - 1),
             returns=lambda c: wire.be(c.st, 8, secs(c))),
        Case('before-epoch-or-too-late', when=lambda c: is_time(c.value) and neg(in_range(secs(c), 0, 2 ** 64 - 1)),
             raises=struct.error),
        Case('not-a-time', when=lambda c: not is_time(c.value), raises=TypeError),
    ], name=ENC + '.timestamp',
        doc='C15/C04/C10: 8 octets, whole seconds since the epoch; naive datetimes and struct_time read as UTC, aware ones as '
            'their absolute instant; no dependence on the host time zone (LOCAL_OFFSET does not occur in the result)'))

    import decimal as _dm
    is_dec = lambda v: (isinstance(v, SOpaque) and v.kind == 'decimal') or isinstance(v, _dm.Decimal)
    RAISES_DEC = RAISES + (_dm.InvalidOperation, ArithmeticError)
    out.append(Contract(ENC + '.decimal', [('value', T.decimal | T.int | T.str | T.none | T.float)], cases=[
        Case('decimal', when=lambda c: is_dec(c.value) and wire.decimal_ok(c.value),
             returns=lambda c: wire.decimal_bytes(c.st, c.value)),
        Case('decimal-refused', when=lambda c: is_dec(c.value) and neg(wire.decimal_ok(c.value)), raises=RAISES_DEC),
        Case('not-a-decimal', when=lambda c: not is_dec(c.value), raises=TypeError),
    ], name=ENC + '.decimal', setup=lambda c: wire.dec_facts(c.st, c.value.t) if isinstance(c.value, SOpaque) and c.value.kind == 'decimal' else None,
        doc='scale octet from the exponent + signed 32-bit unscaled value, under the Decimal library model of A5'))
    return out


def register(reg):
    for c in simple_encoders() + abstract_encoders():
        reg.add(c)
    reg.add(bit_contract())
    reg.add(fixed_int_encoder('octet', 0, 255, 1, False, struct.error))
    reg.add(fixed_int_encoder('short_int', -2 ** 15, 2 ** 15 - 1, 2, True, TypeError))
    reg.add(fixed_int_encoder('short_uint', 0, 2 ** 16 - 1, 2, False, TypeError))
    reg.add(fixed_int_encoder('long_int', -2 ** 31, 2 ** 31 - 1, 4, True, TypeError))
    reg.add(fixed_int_encoder('long_uint', 0, 2 ** 32 - 1, 4, False, TypeError))
    reg.add(fixed_int_encoder('long_long_int', -2 ** 63, 2 ** 63 - 1, 8, True, TypeError))
    reg.add(table_integer_contract('table_integer', True))
    reg.add(table_integer_contract('_deprecated_table_integer', False))
    reg.add(switch_contract())


def lemmas():
    """C11 ghost lemmas over the contracts above."""
    out = []
    out.append(table_integer_contract(
        'c11_toggle', True, target='contracts.lemmas.c11_toggle',
        params=[('first', T.bool), ('second', T.bool), ('value', T.int)], legacy_of=lambda c: c.second))
    out.append(table_integer_contract(
        'c11_toggle_default', True, target='contracts.lemmas.c11_toggle_default',
        params=[('first', T.bool), ('value', T.int)], legacy_of=lambda c: True, only_modes=(True,)))
    return out


def bit_contract():
    """encode.bit(value, byte, position): C10 -- a value other than False/True/0/1 must not
    silently set a neighbouring bit (it decodes as a different argument)."""
    from pyvc.sym import SBool, SInt
    pos = TSpec([('bit%d' % k, (lambda k: lambda st, n: k)(k)) for k in range(8)])

    def octet_with_bit_clear(st, name):
        b = SInt(st.fresh_int(name))
        return b
    byte = TSpec([('octet', octet_with_bit_clear)])

    def req(c):
        # the accumulated octet holds only the bits below `position` (how base.Frame.marshal calls it)
        return in_range(c.byte, 0, 2 ** c.position - 1)

    def is01(c):
        v = c.value
        if isinstance(v, (bool, SBool)):
            return True
        if isinstance(v, (int, SInt)):
            return in_range(v, 0, 1)
        return False

    def out(c):
        return sym.mk_int(I(c.byte) + I(c.value) * (2 ** c.position))

    return Contract(ENC + '.bit', [('value', T.bool | T.int | T.str | T.none | T.float), ('byte', byte), ('position', pos)],
                    requires=req, cases=[
        Case('flag', when=is01, returns=out),
        Case('not-a-flag', when=lambda c: neg(is01(c)), raises=(TypeError, ValueError)),
    ], bounded=True, doc='C04/C10: sets bit `position`; only False/True (or 0/1) are flags')
