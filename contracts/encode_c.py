"""Sidecar contracts for pamqp/encode.py (nothing in /repo is annotated).

Top-level postconditions are transcribed from the property statements
(C04/C10/C11); helper contracts are as strong as the code allows (exact
result bytes, exact exception class)."""
import struct

import z3

from pyvc import sym
from pyvc.contract import Contract, Case, T, not_types
from pyvc.dsl import conj, disj, neg, in_range, is_int
from pyvc.sym import I, B, SBytes
from spec import wire

ENC = 'pamqp.encode'
LEGACY = (ENC, 'DEPRECATED_RABBITMQ_SUPPORT', T.bool)


def fixed_int_encoder(name, lo, hi, width, signed, range_error):
    """Fixed-width integer encoders: exact bytes in range; the stated
    exception class outside; TypeError for non-integers."""
    def ok(c):
        return conj(is_int(c.value), in_range(c.value, lo, hi)) if is_int(c.value) else False

    def bad(c):
        return neg(in_range(c.value, lo, hi)) if is_int(c.value) else False

    def out(c):
        return (wire.sbe if signed else wire.be)(c.st, width, c.value)

    return Contract(
        '%s.%s' % (ENC, name), [('value', T.any)],
        cases=[Case('not-an-int', when=lambda c: not is_int(c.value), raises=TypeError),
               Case('out-of-range', when=bad, raises=range_error),
               Case('in-range', when=ok, returns=out)],
        doc='C11/C04: %s-bit %s big-endian; out of range -> %s' % (
            8 * width, 'signed' if signed else 'unsigned', range_error.__name__))


def table_integer_contract(name, reads_global, target=None, params=None, legacy_of=None, only_modes=None):
    """C11, from the statement: first fitting rung of b,s,u,I,i,l (legacy:
    b,s,I,l); integers outside [-2^63, 2^63-1] refused with TypeError."""
    cases = []
    if legacy_of is None:
        legacy_of = lambda c: c.reads['DEPRECATED_RABBITMQ_SUPPORT']

    def mk_case(mode, idx, rung):
        rungs = wire.ladder(mode)

        def when(c):
            n = c.value
            g = [in_range(n, rung[1], rung[2])]
            for earlier in rungs[:idx]:
                g.append(neg(in_range(n, earlier[1], earlier[2])))
            if reads_global:
                leg = legacy_of(c)
                g.append(leg if mode else neg(leg))
            return conj(*g)

        return Case('%s-tag-%s' % ('legacy' if mode else 'full', rung[0]), when=when,
                    returns=lambda c: wire.tag_int_rung(c.st, c.value, rung))

    modes = (False, True) if reads_global else (True,)
    if only_modes is not None:
        modes = only_modes
    for mode in modes:
        for idx, rung in enumerate(wire.ladder(mode)):
            cases.append(mk_case(mode, idx, rung))
    cases.append(Case('refused', when=lambda c: neg(in_range(c.value, *wire.S64)), raises=TypeError))
    return Contract(target or '%s.%s' % (ENC, name), params or [('value', T.int | T.bool)], cases=cases,
                    reads=[LEGACY] if (reads_global and params is None) else [],
                    doc='C11 ladder', pure=params is None, bounded=params is None)


def switch_contract():
    """support_deprecated_rabbitmq(enabled=True): stores its argument in the
    module switch and touches nothing else; the default argument is True."""
    def post(c, result):
        st = c.st
        ws = [w for w in st.global_writes if w[0] == ENC and w[1] == 'DEPRECATED_RABBITMQ_SUPPORT']
        others = [w for w in st.global_writes if not (w[0] == ENC and w[1] == 'DEPRECATED_RABBITMQ_SUPPORT')]
        if result is not None or others or len(ws) != 1:
            return False
        return I(ws[0][2]) == I(c.enabled) if sym.is_intlike(ws[0][2]) else False

    def effects(c):
        c.st.global_writes.append((ENC, 'DEPRECATED_RABBITMQ_SUPPORT', c.enabled))
        c.st.global_over[(ENC, 'DEPRECATED_RABBITMQ_SUPPORT')] = c.enabled

    return Contract(ENC + '.support_deprecated_rabbitmq', [('enabled', T.bool)],
                    cases=[Case('sets-switch', post=post, effects=effects)], pure=False,
                    modifies=['DEPRECATED_RABBITMQ_SUPPORT'])


def register(reg):
    reg.add(fixed_int_encoder('octet', 0, 255, 1, False, struct.error))
    reg.add(fixed_int_encoder('short_int', -2 ** 15, 2 ** 15 - 1, 2, True, TypeError))
    reg.add(fixed_int_encoder('short_uint', 0, 2 ** 16 - 1, 2, False, TypeError))
    reg.add(fixed_int_encoder('long_int', -2 ** 31, 2 ** 31 - 1, 4, True, TypeError))
    reg.add(fixed_int_encoder('long_uint', 0, 2 ** 32 - 1, 4, False, TypeError))
    reg.add(fixed_int_encoder('long_long_int', -2 ** 63, 2 ** 63 - 1, 8, True, TypeError))
    reg.add(table_integer_contract('table_integer', True))
    reg.add(table_integer_contract('_deprecated_table_integer', False))
    reg.add(switch_contract())


def lemmas():
    """C11 ghost lemmas over the contracts above."""
    out = []
    out.append(table_integer_contract(
        'c11_toggle', True, target='contracts.lemmas.c11_toggle',
        params=[('first', T.bool), ('second', T.bool), ('value', T.int)], legacy_of=lambda c: c.second))
    out.append(table_integer_contract(
        'c11_toggle_default', True, target='contracts.lemmas.c11_toggle_default',
        params=[('first', T.bool), ('value', T.int)], legacy_of=lambda c: True, only_modes=(True,)))
    return out
