"""Per-class contracts for the 64 method classes and Basic.Properties,
generated from the *specification table* (spec/tables.py), never from the
code: base.Frame.marshal[C], base.Frame.unmarshal[C], C.__init__, C.validate
and the mapping protocol of base._AMQData (C01, C04, C05, C13, C19).

The loop over the code's own __slots__ / _attr types is unrolled by the
executor (they are concrete class data read from the real module), so a
reordered slot, a wrong wire type, a wrong bit position or a lost flush of
the bit octet changes the bytes the executor computes and fails here."""
import struct

import z3

from pyvc import sym, lib
from pyvc.contract import Contract, Case, T, TSpec, values_equal
from pyvc.dsl import conj, disj, neg, in_range, is_int, eq, le, lt
from pyvc.sym import I, B, SBytes, SObj, SInt, SBool, SStr, SOpaque, mk_int, mk_bool, State
from spec import wire, tables

ENC = 'pamqp.encode'
LEGACY = (ENC, 'DEPRECATED_RABBITMQ_SUPPORT', T.bool)
INLINE_MARSHAL = ('pamqp.encode.by_type', 'pamqp.encode.bit', 'pamqp.base._AMQData.amqp_type',
                  'pamqp.base.Frame.validate')
INLINE_UNMARSHAL = ('pamqp.decode.by_type', 'pamqp.base._AMQData.amqp_type')
ENCODE_REFUSALS = (TypeError, struct.error, UnicodeEncodeError, OverflowError)

TYPED = {   # I1: the Python type each wire type takes
    'octet': T.int, 'short': T.int, 'long': T.int, 'longlong': T.int, 'bit': T.bool,
    'shortstr': T.str, 'longstr': T.str, 'table': T.dict | T.none,
    'timestamp': T.dt_naive | T.dt_aware | T.struct_time,
}


def real_class(m):
    from pamqp import commands
    return getattr(getattr(commands, m.pyclass), m.pymethod)


def self_spec(m, provenance='param', overrides=None):
    """`self`: an instance of the real class with one typed symbolic value per
    specified argument; one verification instance per combination of type classes."""
    import itertools
    specs = [(overrides or {}).get(f.name, TYPED[f.wire]) for f in m.fields]
    makers = []
    for combo in itertools.product(*[s.instances() for s in specs]):
        label = m.name + '(' + ','.join(c[0] for c in combo) + ')'

        def mk(st, name, combo=combo):
            cls = real_class(m)
            return SObj(cls, {f.name: c[1](st, f.name) for f, c in zip(m.fields, combo)},
                        provenance=provenance, label=name)
        makers.append((label, mk))
    return TSpec(makers)


def is_cls(m):
    def sel(fn, args):
        return bool(args) and isinstance(args[0], SObj) and args[0].cls is real_class(m)
    return sel


# ---------------------------------------------------------------- validity (C13), from the protocol definition
def regex_ok(st, domain, s):
    """Membership of s in the name character class.  The compiled pattern in
    constants.DOMAIN_REGEX[domain] is identified with the specified class by
    the automaton-equivalence obligation of C13 (assumption A6)."""
    from pamqp import constants
    pat = constants.DOMAIN_REGEX[domain]
    if isinstance(s, str):
        return all(ch in tables.NAME_CHARSET for ch in s)
    return lib.regex_term(st, pat, s)


def valid(st, m, attrs):
    """Valid_C: conjunction of the constraints the protocol definition puts on this method."""
    terms = []
    for fname, kind, param in tables.constraints(m):
        v = attrs[fname]
        if v is None:
            continue            # I5: an unset (None) argument is not validated (changelog 3.0.0a6); typed domains exclude it
        if kind == 'fixed':
            if isinstance(param, bool):
                terms.append(neg(v) if isinstance(v, (bool, SBool)) else False)
            elif isinstance(param, int):
                terms.append(eq(v, param) if is_int(v) and not isinstance(v, (bool, SBool)) else
                             (eq(v, param) if is_int(v) else False))
            else:
                terms.append(st.str_eq(v, param) if sym.is_strlike(v) else False)
        elif kind == 'maxlen':
            terms.append(le(st.str_len(v), param) if sym.is_strlike(v) else False)
        elif kind == 'charset':
            terms.append(regex_ok(st, param, v) if sym.is_strlike(v) else False)
    return conj(*terms)


def all_encodable(st, m, attrs, legacy):
    return conj(*[wire.field_ok(st, f.wire, attrs[f.name], legacy) for f in m.fields])


# ---------------------------------------------------------------- marshal
def marshal_contract(m):
    fields = [(f.name, f.wire) for f in m.fields]

    def leg(c):
        return c.reads['DEPRECATED_RABBITMQ_SUPPORT']

    def ok(c):
        a = c.self.attrs
        return conj(valid(c.st, m, a), all_encodable(c.st, m, a, leg(c)))

    cases = [
        Case('encoded', when=ok, returns=lambda c: wire.args_wire(c.st, fields, c.self.attrs, leg(c))),
    ]
    if tables.constraints(m):
        cases.insert(0, Case('invalid-arguments', when=lambda c: neg(valid(c.st, m, c.self.attrs)), raises=ValueError))
    if any(f.wire != 'bit' for f in m.fields):
        cases.append(Case('refused', when=lambda c: conj(valid(c.st, m, c.self.attrs),
                                                        neg(all_encodable(c.st, m, c.self.attrs, leg(c)))),
                          raises=ENCODE_REFUSALS, need_cover=False))
    return Contract('pamqp.base.Frame.marshal', [('self', self_spec(m))], cases=cases, reads=[LEGACY], selector=is_cls(m), name='pamqp.base.Frame.marshal[%s]' % m.name, inline=INLINE_MARSHAL,
        bounded=False,
        doc='C04/C01/C13: arguments in specification order, bits LSB-first in shared octets; ValueError before any bytes when a constraint is broken')


# ---------------------------------------------------------------- validate / __init__
def validate_contract(m):
    cls = real_class(m)
    has_own = 'validate' in cls.__dict__
    target = 'pamqp.commands.%s.validate' % m.name if has_own else 'pamqp.base.Frame.validate'
    return Contract(target, [('self', self_spec(m))], cases=[
        Case('accepted', when=lambda c: valid(c.st, m, c.self.attrs), returns=lambda c: None),
        Case('rejected', when=lambda c: neg(valid(c.st, m, c.self.attrs)), raises=ValueError),
    ], selector=is_cls(m), name='pamqp.commands.%s.validate' % m.name, bounded=False,
        doc='C13: ValueError iff a constraint of the protocol definition is broken')


def none_default_fields(m):
    """Arguments (other than tables, whose type class already includes None) whose default in the real signature is None."""
    import inspect
    cls = real_class(m)
    sig = inspect.signature(cls.__init__).parameters
    return [f.name for f in m.fields if f.wire != 'table' and f.name in sig and sig[f.name].default is None]


def init_contract(m, defaults=False):
    """C.__init__(args): stores each argument (tables: a *fresh* empty dict when
    none is given) and raises ValueError iff the stored values are invalid.
    Two instance sets: every argument of its wire type's Python class, and (defaults=True) the arguments whose
    default is None left at None - what the decoders do when they build the object before filling it."""
    cls = real_class(m)
    if cls.__init__ is object.__init__:
        return None
    nones = none_default_fields(m)
    if defaults and not nones:
        return None

    def fresh_self(st, name):
        return SObj(cls, {}, provenance='param', label=name)

    params = [('self', TSpec([(m.name, fresh_self)]))] + [(f.name, T.none if (defaults and f.name in nones) else TYPED[f.wire])
                                                          for f in m.fields]
    if defaults:
        picks = lambda b: all(b.get(n) is None for n in nones)
    else:
        picks = lambda b: all(b.get(n) is not None for n in nones)

    def stored(c):
        out = {}
        for f in m.fields:
            v = getattr(c, f.name)
            if f.wire == 'table' and v is None:
                out[f.name] = ('fresh-empty-dict',)
            else:
                out[f.name] = v
        return out

    def args_as_attrs(c):
        a = {}
        for f in m.fields:
            v = getattr(c, f.name)
            a[f.name] = v
        return a

    def post(c, res):
        st = c.st
        if res is not None:
            return False
        terms = []
        for f in m.fields:
            if f.name not in c.self.attrs:
                return False
            got, arg = c.self.attrs[f.name], getattr(c, f.name)
            if f.wire == 'table':
                if arg is None:
                    # a fresh empty dict allocated by this call (C16): python dict created in the body
                    if not (isinstance(got, dict) and not got and id(got) in st.fresh_ids):
                        return False      # must be allocated by this call, not a shared default
                    continue
                # `x or {}`: an empty dict argument may be replaced by a fresh empty dict
                if isinstance(got, dict) and not got and id(got) in st.fresh_ids:
                    from pyvc.contract import obj_nonempty
                    terms.append(z3.Not(obj_nonempty(arg.t)))
                    continue
            t, exact = values_equal(st, got, arg)
            terms.append(t if exact else False)
        return conj(*terms)

    def effects(c):
        for f in m.fields:
            v = getattr(c, f.name)
            c.self.attrs[f.name] = c.st.allocated({}) if (f.wire == 'table' and v is None) else v

    cases = [Case('constructed', when=lambda c: valid(c.st, m, args_as_attrs(c)), post=post, effects=effects)]
    if tables.constraints(m):
        cases.append(Case('rejected', when=lambda c: neg(valid(c.st, m, args_as_attrs(c))), raises=ValueError,
                          need_cover=not defaults))     # (with the constrained arguments at None nothing may be left to reject)
    return Contract('pamqp.commands.%s.__init__' % m.name, params, cases=cases, pure=False, bounded=False, inline=('pamqp.base.Frame.validate',),
        name='pamqp.commands.%s.__init__%s' % (m.name, '(defaults)' if defaults else ''), selector_bound=picks,
        doc='C13: construction raises ValueError iff a constraint is broken; every accepted value is stored unchanged')



# ---------------------------------------------------------------- unmarshal
RAISES_DECODE = (struct.error, ValueError, OverflowError)   # UnicodeDecodeError is a ValueError


def unmarshal_contract(m):
    """base.Frame.unmarshal[C](data) for an *arbitrary* octet string, against
    the reference decoder spec.wire.args_parse: when the octets are a
    grammar-valid argument list, every attribute is the value the grammar
    assigns (exact Python type) and nothing is validated (C05/C13); otherwise
    the call raises one of the low-level decode errors or returns (C09 maps
    them in frame.unmarshal)."""
    fields = [(f.name, f.wire) for f in m.fields]
    cls = real_class(m)

    def fresh_self(st, name):
        return SObj(cls, {}, provenance='param', label=name)

    def parsed(c):
        return wire.args_parse(c.st, fields, c.data)

    def good(c):
        r = parsed(c)
        return False if r is None else r[2]

    def post(c, res):
        values, consumed, cond = parsed(c)
        if res is not None:
            return False
        terms = []
        for name, _ in fields:
            if name not in c.self.attrs:
                return False
            t, exact = values_equal(c.st, c.self.attrs[name], values[name])
            terms.append(t if exact else False)
        only = all(w[0] == c.self.label and w[2] in dict(fields) for w in c.st.writes if len(w) == 3)
        from pyvc.contract import is_fresh
        fresh = all(is_fresh(c.st, c.self.attrs[name]) for name, _ in fields)     # decoded containers belong to this frame only
        return conj(only, fresh, *terms)

    def eff_good(c):
        values, consumed, cond = parsed(c)
        from pyvc.contract import mark_fresh
        for name, _ in fields:
            mark_fresh(c.st, values[name])
            c.self.attrs[name] = values[name]
            c.st.writes.append((c.self.label, c.self.provenance, name))

    def eff_bad(c):
        for name, _ in fields:
            c.self.attrs[name] = SOpaque('foreign', c.st.fresh('garbage_' + name, sym.ObjS))

    cases = [Case('grammar-valid-arguments', when=good, post=post, effects=eff_good)]
    if fields:
        cases.append(Case('anything-else', when=lambda c: neg(good(c)), effects=eff_bad, may_raise=RAISES_DECODE,
                          post=lambda c, r: r is None))
    return Contract('pamqp.base.Frame.unmarshal', [('self', TSpec([(m.name, fresh_self)])), ('data', T.bytes)],
                    cases=cases, selector=is_cls(m), name='pamqp.base.Frame.unmarshal[%s]' % m.name,
                    inline=INLINE_UNMARSHAL, pure=False, bounded=False, complete=True,
                    doc='C05/C01/C09: total contract over arbitrary octets against the reference decoder')


def register(reg):
    for m in tables.METHODS:
        reg.add(marshal_contract(m))
        reg.add(unmarshal_contract(m))
        if tables.constraints(m):
            reg.add(validate_contract(m))
        for variant in (False, True):
            ic = init_contract(m, defaults=variant)
            if ic is not None:
                reg.add(ic)


def names(kind):
    out = []
    for m in tables.METHODS:
        if kind == 'marshal':
            out.append('pamqp.base.Frame.marshal[%s]' % m.name)
        elif kind == 'unmarshal':
            out.append('pamqp.base.Frame.unmarshal[%s]' % m.name)
        elif kind == 'validate' and tables.constraints(m):
            out.append('pamqp.commands.%s.validate' % m.name)
        elif kind == 'init' and real_class(m).__init__ is not object.__init__:
            out.append('pamqp.commands.%s.__init__' % m.name)
            if none_default_fields(m):
                out.append('pamqp.commands.%s.__init__(defaults)' % m.name)
    return out
