"""Ghost lemmas: small functions in the same Python subset whose bodies call
the *real* functions through their contracts and end in assertions.  They are
executed by the same symbolic interpreter (never by CPython)."""
from pamqp import encode


def c11_toggle(first, second, value):
    """Any toggle sequence: after a sequence of switch calls the ladder used
    is the one selected by the *last* call (two symbolic calls stand for the
    induction step: state after k calls -> state after k+1 calls)."""
    encode.support_deprecated_rabbitmq(first)
    encode.support_deprecated_rabbitmq(second)
    return encode.table_integer(value)


def c11_toggle_default(first, value):
    """The argument-less call switches legacy mode on."""
    encode.support_deprecated_rabbitmq(first)
    encode.support_deprecated_rabbitmq()
    return encode.table_integer(value)
