"""Ghost lemmas: small functions in the same Python subset whose bodies call
the *real* functions through their contracts and end in assertions.  They are
executed by the same symbolic interpreter (never by CPython)."""
from pamqp import encode


def c11_toggle(first, second, value):
    """Any toggle sequence: after a sequence of switch calls the ladder used
    is the one selected by the *last* call (two symbolic calls stand for the
    induction step: state after k calls -> state after k+1 calls)."""
    encode.support_deprecated_rabbitmq(first)
    encode.support_deprecated_rabbitmq(second)
    return encode.table_integer(value)


def c11_toggle_default(first, value):
    """The argument-less call switches legacy mode on."""
    encode.support_deprecated_rabbitmq(first)
    encode.support_deprecated_rabbitmq()
    return encode.table_integer(value)


# ---------------------------------------------------------------- C18 / C06 / C07 / C20
from pamqp import body, frame, header, heartbeat


def c18_body_roundtrip(value, channel, rest):
    wire = frame.marshal(body.ContentBody(value), channel)
    return wire, frame.unmarshal(wire + rest)


def c18_body_len(value):
    return len(body.ContentBody(value))


def c18_heartbeat(channel, rest):
    wire = frame.marshal(heartbeat.Heartbeat(), channel)
    return wire, frame.unmarshal(wire + rest)


def c18_protocol_header(major, minor, revision, channel, rest):
    wire = frame.marshal(header.ProtocolHeader(major, minor, revision), channel)
    return wire, frame.unmarshal(wire + rest)


def c06_trailing_bytes(first, tail):
    """`first` is a buffer on which decoding succeeds and consumes everything;
    appending arbitrary bytes must not change what is decoded or how much."""
    n1, ch1, obj1 = frame.unmarshal(first)
    n2, ch2, obj2 = frame.unmarshal(first + tail)
    return n1, ch1, obj1, n2, ch2, obj2, (first + tail)[n2:]


def c07_prefix(prefix):
    return frame.unmarshal(prefix)


def c20_peek_then_read(value, channel, rest):
    wire = frame.marshal(body.ContentBody(value), channel)
    buf = wire + rest
    frame_type, channel_id, size = frame.frame_parts(buf)
    return frame_type, channel_id, size, len(wire), frame.unmarshal(buf[0:7 + size + 1])


def c20_peek_low_level(frame_type, channel, payload, rest):
    wire = frame._marshal(frame_type, channel, payload)
    t, ch, size = frame.frame_parts(wire + rest)
    return t, ch, size, len(wire)


def c01_roundtrip(frame_value, channel, rest):
    data = frame.marshal(frame_value, channel)
    return data, frame.unmarshal(data + rest)


def c02_roundtrip(header_value, channel, rest):
    data = frame.marshal(header_value, channel)
    return data, frame.unmarshal(data + rest)


def c02_reencode(header_value, normalised, channel):
    """`normalised` is the header the round-trip lemma shows the decoder returns
    (every set property replaced by its documented normalisation)."""
    return frame.marshal(header_value, channel), frame.marshal(normalised, channel)


from pamqp import decode


def c03_roundtrip(value, rest):
    data = encode.encode_table_value(value)
    return data, decode.embedded_value(data + rest)
