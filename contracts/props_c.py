"""Basic.Properties and ContentHeader (C02, and the content-header parts of
C04/C05/C09/C12/C13/C16).

All 2^14 presence patterns are one symbolic family: an optional attribute is
`set_j ? value_j : None`; the encoding of property j is a *conditional chunk*
(its octets when present, nothing otherwise).  The two 14-iteration loops are
verified as cuts with index-dependent invariants (pyvc.loops.CutFor), so the
path count is linear in the number of properties."""
import struct

import z3

from pyvc import sym
from pyvc.contract import Contract, Case, T, TSpec, values_equal, obj_nonempty
from pyvc.dsl import conj, disj, neg, implies, in_range, is_int, eq, le, lt
from pyvc.loops import CutFor, JoinList
from pyvc.sym import I, B, SBytes, SObj, SInt, SBool, SStr, SOpaque, SCond, mk_int, mk_bool, State
from spec import wire, tables

ENC = 'pamqp.encode'
LEGACY = (ENC, 'DEPRECATED_RABBITMQ_SUPPORT', T.bool)
ENCODE_REFUSALS = (TypeError, struct.error, UnicodeEncodeError, OverflowError)
RAISES_DECODE = (struct.error, ValueError, OverflowError)
NAMES = [n for n, _, _ in tables.PROPERTIES]
BITS = [b for _, b, _ in tables.PROPERTIES]
TYPES = [w for _, _, w in tables.PROPERTIES]
TYPED = {'octet': T.int, 'shortstr': T.str, 'table': T.dict, 'timestamp': T.dt_naive | T.dt_aware | T.struct_time}
BP = 'pamqp.base.BasicProperties.'


def props_class():
    from pamqp import commands
    return commands.Basic.Properties


def leg(c):
    return c.reads['DEPRECATED_RABBITMQ_SUPPORT']


# ---------------------------------------------------------------- a symbolic property set
def props_spec(provenance='param'):
    """`self`: every property is `set_j ? v_j : None` with v_j typed by its wire
    type (cluster_id: always a str).  One instance per timestamp kind."""
    makers = []
    for tlabel, tmaker in TYPED['timestamp'].instances():
        def mk(st, name, tmaker=tmaker):
            obj = SObj(props_class(), {}, provenance=provenance, label=name)
            obj.ident = st.fresh('props', sym.ObjS)
            obj.ghost = {}
            for n, w in zip(NAMES, TYPES):
                v = tmaker(st, n) if w == 'timestamp' else TYPED[w].instances()[0][1](st, n)
                if n == 'cluster_id':
                    obj.attrs[n] = v
                    obj.ghost[n] = (True, v)
                else:
                    s = st.fresh_bool('set_' + n)
                    obj.attrs[n] = SCond(s, v, None)
                    obj.ghost[n] = (s, v)
            return obj
        makers.append(('Properties(timestamp:%s)' % tlabel, mk))
    return TSpec(makers)


def describe(st, obj):
    """(set, value) per property for any Properties object the executor holds:
    from the ghost record of a symbolic instance, or from concrete attributes."""
    out = []
    for n in NAMES:
        if hasattr(obj, 'ghost') and n in obj.ghost:
            out.append(obj.ghost[n])
            continue
        v = obj.attrs.get(n)
        if isinstance(v, SCond):
            out.append((v.cond, v.a))
        else:
            out.append((v is not None, v))
    return out


def present_of(st, obj):
    """present_j: set and not the empty string (C02)."""
    out = []
    for (s, v), w in zip(describe(st, obj), TYPES):
        if s is False:
            out.append(False)
        elif w == 'shortstr' and sym.is_strlike(v):
            out.append(conj(s, neg(st.str_eq(v, ''))))
        else:
            out.append(s)
    return out


def values_of(st, obj):
    return [v for (s, v) in describe(st, obj)]


def ident_of(st, obj):
    if not hasattr(obj, 'ident'):
        obj.ident = st.fresh('props', sym.ObjS)
    return obj.ident


def all_ok(st, obj, legacy, upto=len(NAMES)):
    pres, vals = present_of(st, obj), values_of(st, obj)
    return conj(*[implies(p, field_ok(st, w, v, legacy)) for p, w, v in list(zip(pres, TYPES, vals))[:upto]])


def field_ok(st, w, v, legacy):
    if v is None:
        return True
    if w == 'octet' and not is_int(v):
        return False
    if w == 'shortstr' and not sym.is_strlike(v):
        return False
    if w == 'table' and isinstance(v, SOpaque) and v.kind == 'dict':
        return z3.Or(z3.Not(obj_nonempty(v.t)), wire.table_encodable(v.t, B(legacy)))
    return wire.field_ok(st, w, v, legacy)


def wire_of(st, obj, legacy):
    return wire.props_wire(st, ident_of(st, obj), present_of(st, obj), BITS, TYPES, values_of(st, obj), legacy)


def chunks_of(st, obj, legacy, first=0, last=None):
    return wire.props_chunks(st, ident_of(st, obj), present_of(st, obj), TYPES, values_of(st, obj), legacy, first, last)


# ---------------------------------------------------------------- BasicProperties.marshal
def marshal_loop(reads_legacy):
    def havoc(ip, fr, k):
        st, me = ip.st, fr.locals['self']
        legacy = reads_legacy(ip)
        ok = all_ok(st, me, legacy, upto=k)      # iterations 0..k-1 completed: nothing present was refused
        st.assume(B(ok) if not isinstance(ok, bool) else ok)
        fr.locals['flags'] = wire.props_flags(present_of(st, me)[:k], BITS[:k])
        fr.locals['parts'] = JoinList(chunks_of(st, me, legacy, 0, k))

    def inv(ip, fr, k):
        st, me = ip.st, fr.locals['self']
        legacy = reads_legacy(ip)
        parts = fr.locals['parts']
        segs = parts.segs if isinstance(parts, JoinList) else [x for p in parts for x in st.to_rope(p).segs]
        t, exact = st.rope_eq(SBytes(segs), SBytes(chunks_of(st, me, legacy, 0, k)))
        return [('flags', eq(fr.locals['flags'], wire.props_flags(present_of(st, me)[:k], BITS[:k])), True),
                ('parts', t, exact),
                ('nothing-present-was-refused', all_ok(st, me, legacy, upto=k), True)]

    ann = CutFor(havoc, inv, doc='flags == sum of the flags of the present properties so far; '
                                 'join(parts) == their encodings in specification order')
    ann.binds = ('flags', 'parts', 'self')
    return ann


def marshal_contract():
    def legacy_of(ip):
        return ip.st.global_over.get((ENC, 'DEPRECATED_RABBITMQ_SUPPORT'), False)

    return Contract(BP + 'marshal', [('self', props_spec())], cases=[
        Case('encoded', when=lambda c: all_ok(c.st, c.self, leg(c)), returns=lambda c: wire_of(c.st, c.self, leg(c))),
        Case('refused', when=lambda c: neg(all_ok(c.st, c.self, leg(c))), raises=ENCODE_REFUSALS, need_cover=False),
    ], reads=[LEGACY], loops={(BP + 'marshal', 0): marshal_loop(legacy_of)},
        inline=('pamqp.base.BasicProperties.encode_property', 'pamqp.encode.by_type', 'pamqp.base._AMQData.amqp_type'),
        bounded=False, complete=True,
        doc='C02/C04: flag word (bits 15..2, MSB first, continuation bit clear) then the present properties in order')




# ---------------------------------------------------------------- BasicProperties.unmarshal
def flag_bit(c, flags, k):
    """Bit k of a (possibly negative: the code reads the word signed) flags integer."""
    if isinstance(flags, int):
        return bool((flags >> k) & 1)
    return c.ip.lib.low_bits(flags, 16)[k]


def structured(c):
    """Is `data` fourteen conditional chunks (one per property, in order) whose
    conditions are the flag bits and whose definitions are grammar-valid
    encodings of their wire types?  -> [(cond, thunk)] + rest segments, or None."""
    from pyvc.contract import scope
    st = c.st
    if not isinstance(c.data, SBytes):
        return None
    segs = st.expand(c.data.segs)
    if len(segs) < len(NAMES):
        return None
    found = []
    c.matched_chunks = segs[:len(NAMES)]
    for j in range(len(NAMES)):
        s = segs[j]
        if not (isinstance(s, sym.Chunk) and s.key() in st.cond_defs and s.key() not in st.refine):
            return None
        found.append(st.cond_defs[s.key()])
    for j, (cond, thunk) in enumerate(found):
        fb = flag_bit(c, c.flags, BITS[j])
        fb = z3.BoolVal(fb) if isinstance(fb, bool) else fb
        if not st.must(cond == fb):
            return None
        if st.can(cond):
            with scope(st):
                st.assume(cond)
                r = wire.args_parse(st, [(NAMES[j], TYPES[j])], thunk())
                if r is None or not (r[2] is True or st.must(B(r[2]))):
                    return None
                rest_len = wire.blen(st, thunk())
                if not st.must(I(r[1]) == I(rest_len)):
                    return None
    return found, segs[len(NAMES):]


def decoded_value(st, j, thunk):
    def val():
        r = wire.args_parse(st, [(NAMES[j], TYPES[j])], thunk())
        if r is None:
            # (only reachable when the code under analysis put the path into a state the grammar excludes)
            return SOpaque('foreign', st.fresh('unparsable_property', sym.ObjS))
        if r[2] is not True:
            st.assume(B(r[2]))
        return r[0][NAMES[j]]
    return val


def unmarshal_instances():
    """Grammar-side instances: any flag word, any grammar-valid encoding per flagged property."""
    makers = []
    for table_kind in ('empty-table', 'table'):
        def mk_all(st, table_kind=table_kind):
            conds, thunks = [], []
            for j, (n, w) in enumerate(zip(NAMES, TYPES)):
                q = st.fresh_bool('flag_' + n)
                if w == 'octet':
                    rope = SBytes([st.new_byte(n)])
                elif w == 'shortstr':
                    L, K = st.new_byte('len_' + n), st.new_chunk('utf8_' + n)
                    st.assume(z3.And(K.len == L, sym.utf8_valid(K.t)))
                    rope = SBytes([L, K])
                elif w == 'timestamp':
                    atoms = [st.new_byte('ts') for _ in range(8)]
                    st.assume(wire.dt_representable(I(State.unpack_uint(atoms))))
                    rope = SBytes(atoms)
                else:
                    if table_kind == 'empty-table':
                        rope = SBytes([0, 0, 0, 0])
                    else:
                        d = SOpaque('dict', st.fresh('ghost_table', sym.ObjS))
                        rope = wire.table_bytes(st, d, False)
                conds.append(q)
                thunks.append((lambda rope=rope: rope))
            return conds, thunks
        makers.append((table_kind, mk_all))
    return makers


def unmarshal_loop():
    def ghost(fr):
        return getattr(fr.locals['self'], 'wire_ghost', None)

    def expected(st, me, j):
        conds, thunks, chunks, rest, init = me.wire_ghost
        return SCond(conds[j], decoded_value(st, j, thunks[j]), init[j])

    def havoc(ip, fr, k):
        st, me = ip.st, fr.locals['self']
        g = ghost(fr)
        if g is None:       # arbitrary octets: nothing is known about the remaining data
            fr.locals['data'] = SBytes([st.new_chunk('remaining')])
            for n in NAMES[:k]:
                me.attrs[n] = SOpaque('foreign', st.fresh('any', sym.ObjS))
            return
        conds, thunks, chunks, rest, init = g
        fr.locals['data'] = SBytes(chunks[k:] + rest)
        for j in range(k):
            me.attrs[NAMES[j]] = expected(st, me, j)

    def inv(ip, fr, k):
        st, me = ip.st, fr.locals['self']
        g = ghost(fr)
        if g is None:
            return [('data-is-bytes', sym.is_byteslike(fr.locals['data']), True)]
        conds, thunks, chunks, rest, init = g
        t, exact = st.rope_eq(fr.locals['data'], SBytes(chunks[k:] + rest))
        out = [('remaining-data', t, exact)]
        for j in range(len(NAMES)):
            want = expected(st, me, j) if j < k else init[j]
            got = me.attrs.get(NAMES[j])
            if got is want:
                continue
            tt, ee = values_equal(st, got, want)
            out.append(('attribute:' + NAMES[j], tt, ee))
        return out

    ann = CutFor(havoc, inv, doc='data == encodings of the flagged properties not yet read ++ rest; '
                                 'attributes read so far hold the grammar values, the others are untouched')
    ann.binds = ('data', 'flags', 'self')
    return ann


def unmarshal_contract():
    cls_path = 'pamqp.commands.Basic.Properties'

    def mk_struct(table_kind, build):
        def mk(st, name):
            me = SObj(props_class(), {}, provenance='param', label=name)
            conds, thunks = build(st)
            chunks = [st.cond_chunk(st.fresh('wprop', sym.BytesS), q, th, length=st.rope_len_term(th())) for q, th in zip(conds, thunks)]
            rest = [st.new_chunk('rest')]
            init = [SOpaque('foreign', st.fresh('init_' + n, sym.ObjS)) for n in NAMES]
            for n, v in zip(NAMES, init):
                me.attrs[n] = v
            me.wire_ghost = (conds, thunks, chunks, rest, init)
            return me
        return ('Properties[%s]' % table_kind, mk)

    def mk_arbitrary(st, name):
        me = SObj(props_class(), {n: SOpaque('foreign', st.fresh('init_' + n, sym.ObjS)) for n in NAMES},
                  provenance='param', label=name)
        return me

    self_spec = TSpec([mk_struct(k, b) for k, b in unmarshal_instances()] + [('Properties[arbitrary-input]', mk_arbitrary)])

    def setup(c):
        st, me = c.st, c.self
        g = getattr(me, 'wire_ghost', None)
        if g is None:
            c.args['flags'] = SInt(st.fresh_int('flags'))
            c.args['data'] = SBytes([st.new_chunk('data')])
            return
        conds, thunks, chunks, rest, init = g
        # any integer: sixteen low bits (bits 15..2 = the property flags, bit 1 unused, bit 0 continuation)
        # and arbitrary higher words (possibly negative: the code reads flag words signed)
        u0, u1, hi = st.fresh_bool('continuation_bit'), st.fresh_bool('unused_bit_1'), st.fresh_int('higher_words')
        bits = [u0, u1] + [None] * 14
        for q, b in zip(conds, BITS):
            bits[b] = q
        flags = st.fresh_int('flags')
        st.assume(flags == hi * 65536 + z3.Sum([z3.If(bits[k], 2 ** k, 0) for k in range(16)]))
        st.pack_cache[('lowbits', 16, flags.get_id())] = bits
        st.keep.append(flags)
        c.args['flags'] = SInt(flags)
        c.args['data'] = SBytes(chunks + rest)

    def good(c):
        return structured(c) is not None

    def post(c, res):
        found, rest = structured(c)
        if res is not None:
            return False
        init = c.self.wire_ghost[4] if hasattr(c.self, 'wire_ghost') else None
        for j, (cond, thunk) in enumerate(found):
            want = SCond(cond, decoded_value(c.st, j, thunk), init[j] if init else None)
            t, e = values_equal(c.st, c.self.attrs.get(NAMES[j]), want)
            if not (t is True and e):
                if t is False or not e or not c.st.must(B(t)):
                    return False
        return True

    def eff_good(c):
        found, rest = structured(c)
        for j, (cond, thunk) in enumerate(found):
            old = c.self.attrs.get(NAMES[j])
            c.self.attrs[NAMES[j]] = SCond(cond, decoded_value(c.st, j, thunk), old)
            c.st.writes.append((c.self.label, c.self.provenance, NAMES[j]))

    def eff_bad(c):
        for n in NAMES:
            c.self.attrs[n] = SOpaque('foreign', c.st.fresh('garbage_' + n, sym.ObjS))

    return Contract(BP + 'unmarshal', [('self', self_spec), ('flags', T.const(None, 'flags')), ('data', T.const(None, 'data'))],
                    setup=setup, cases=[
        Case('grammar-valid-properties', when=good, post=post, effects=eff_good),
        Case('anything-else', when=lambda c: not good(c), post=lambda c, r: r is None, effects=eff_bad,
             may_raise=RAISES_DECODE, garbles=True),
    ], loops={(BP + 'unmarshal', 0): unmarshal_loop()}, inline=('pamqp.decode.by_type',), pure=False, bounded=False,
        complete=True,
        doc='C02/C05: exactly the flagged properties are assigned the grammar values, the others are untouched')


# ---------------------------------------------------------------- validate / __init__ (C13)
def valid_props(st, cluster_id, delivery_mode_set, delivery_mode):
    ok_cluster = st.str_eq(cluster_id, '') if sym.is_strlike(cluster_id) else False
    if delivery_mode_set is False:
        return ok_cluster
    ok_mode = disj(eq(delivery_mode, 1), eq(delivery_mode, 2)) if is_int(delivery_mode) else False
    return conj(ok_cluster, implies(delivery_mode_set, ok_mode))


def validate_contract():
    def v(c):
        d = dict(zip(NAMES, describe(c.st, c.self)))
        return valid_props(c.st, d['cluster_id'][1], d['delivery_mode'][0], d['delivery_mode'][1])

    return Contract(BP + 'validate', [('self', props_spec())], cases=[
        Case('accepted', when=v, returns=lambda c: None),
        Case('rejected', when=lambda c: neg(v(c)), raises=ValueError),
    ], bounded=False, doc='C13: cluster id must stay empty, delivery mode must be 1 or 2 when set')


def init_contract():
    cls = props_class()

    def fresh_self(st, name):
        return SObj(cls, {}, provenance='param', label=name)

    def opt(spec, always=False):
        lab, mk = spec.instances()[0][:2]

        def maker(st, name):
            v = mk(st, name)
            return v if always else SCond(st.fresh_bool('given_' + name), v, None)
        ts = TSpec([(lab, maker)])
        ts.optional = not always      # the instance ranges over `None` as well
        return ts

    params = [('self', TSpec([('Properties', fresh_self)]))]
    for n, w in zip(NAMES, TYPES):
        params.append((n, opt(T.dt_aware if w == 'timestamp' else TYPED[w], always=(n == 'cluster_id'))))

    def argpair(c, n):
        v = getattr(c, n)
        return (v.cond, v.a) if isinstance(v, SCond) else (v is not None, v)

    def v(c):
        s, m = argpair(c, 'delivery_mode')
        return valid_props(c.st, argpair(c, 'cluster_id')[1], s, m)

    def post(c, res):
        if res is not None:
            return False
        return all(c.self.attrs.get(n) is getattr(c, n) for n in NAMES)

    def eff(c):
        for n in NAMES:
            c.self.attrs[n] = getattr(c, n)

    return Contract('pamqp.commands.Basic.Properties.__init__', params, cases=[
        Case('constructed', when=v, post=post, effects=eff),
        Case('rejected', when=lambda c: neg(v(c)), raises=ValueError),
    ], pure=False, bounded=False, doc='C13/C02: stores its arguments unchanged; ValueError iff validate refuses them')


def default_like(st):
    return SObj(props_class(), {n: SOpaque('foreign', st.fresh('garbage_' + n, sym.ObjS)) for n in NAMES}, provenance='fresh')


def register(reg):
    reg.add(marshal_contract())
    reg.add(unmarshal_contract())
    reg.add(validate_contract())
    reg.add(init_contract())
