"""Texts for MANIFEST.json (one entry per claimed property)."""
HOOK_COMMITS = []
COMMON_NOTE = ('Trusted: the pyvc generator and its library models (struct, utf-8, re, datetime; cross-checked against CPython on '
               'concrete inputs), z3/cvc5, CPython ast; Python ints are mathematical so no machine-arithmetic idealisation. '
               'Functions outside the executor subset fall back to a bounded run-time check of the same contract, labelled '
               'bounded in the evidence and never counted as discharged. The cone of contracts is closed under use: every '
               'contract applied at a call site while verifying is itself verified in the same run (listed as '
               'contracts_added_by_cone_closure); applying a contract to an argument type class it was not verified for is '
               'undecided, not assumed. History clauses (a call gives what it gives in a fresh interpreter) are additionally '
               'exercised by a bounded API session compared call by call with forked fresh children. ')
CHECKS = {
    'C11': {
        'text': 'Every obligation of the integer-encoder contracts (table_integer, _deprecated_table_integer, the five fixed-width '
                'encoders, octet, the legacy switch and two toggle lemmas) is generated from the real AST and discharged by z3 for a '
                'symbolic mathematical integer and a symbolic switch value: the ladder b,s,u,I,i,l / b,s,I,l, TypeError outside s64 and '
                'outside each fixed width, for all integers at once (no bound).',
        'design_ref': 'DESIGN.md 4 C11',
        'note': COMMON_NOTE + 'Assumes the switch holds a bool. Nested positions are covered by the table-encoder contracts of C03/C04 '
                'which pass the switch through unchanged.',
    },
}
CHECKS.update({
    'C14': {
        'text': 'Finite module invariant: about 1400 ground obligations compare every attribute of the 64 classes reachable through '
                'INDEX_MAPPING and of Basic.Properties (ids, index, name, slots, wire types, sync flag, replies, constructor and '
                'documented defaults, flag bits) with an independently transcribed specification table; exhaustive.',
        'design_ref': 'DESIGN.md 4 C14',
        'note': 'Trusted: the hand-transcribed table spec/tables.py (written from the AMQP 0-9-1 + RabbitMQ method catalogue, never '
                'imports pamqp). Values are concrete, so obligations are decided by evaluation on the freshly imported real module; '
                'tools/codegen.py is not executed.',
        'technique': 'ground obligations over the imported real module against a transcribed specification table (exhaustive)',
    },
    'C17': {
        'text': 'Finite module invariant: 18 reply codes x (mapping, value, name, soft xor hard base, common base, instance) and the '
                'protocol constants, as ground obligations against a transcribed table; exhaustive.',
        'design_ref': 'DESIGN.md 4 C17',
        'note': 'Trusted: the transcribed reply-code table in spec/tables.py.',
        'technique': 'ground obligations over the imported real module against a transcribed specification table (exhaustive)',
    },
    'C06': {
        'text': 'frame.unmarshal is verified against a total contract over an arbitrary byte string (12 clauses) and an envelope '
                'clause (whenever it returns: count = size + 8 <= len, last consumed octet 0xCE, channel and kind from the header; '
                'protocol header only after AMQP); a ghost lemma shows that appending any bytes to a buffer that decodes completely '
                'changes neither result nor count and leaves exactly the appended bytes. All byte strings, no length bound.',
        'design_ref': 'DESIGN.md 4 C06',
        'note': COMMON_NOTE + 'The method and content-header payload decoders enter frame.unmarshal through their total contracts; '
                'object equality across the two calls of the lemma is shown for body, heartbeat and protocol header, and kind, '
                'channel and count for all kinds.',
    },
    'C07': {
        'text': 'Ghost lemma over the total contract of frame.unmarshal: for the protocol header and for every frame header with '
                'type in {1,2,3} and size >= 1 or the heartbeat, every cut point (8 + 7 concrete header cuts, and a symbolic cut '
                'inside payload + end octet) raises UnmarshalingException; plus the envelope clause that no successful decode '
                'reports more octets than supplied.',
        'design_ref': 'DESIGN.md 4 C07',
        'note': COMMON_NOTE + 'The received part of the payload is an arbitrary byte string (stronger than a prefix of a valid payload).',
    },
    'C18': {
        'text': 'Contracts for ContentBody (init, len, marshal, unmarshal), Heartbeat.marshal, ProtocolHeader (init, marshal, '
                'unmarshal), frame._marshal, frame.marshal and frame.unmarshal are discharged from the real AST; four ghost lemmas '
                'compose them into the round trips for every payload of length 1..2^32-1 (an opaque byte string, so 0xCE / AMQP '
                'look-alikes are covered), every channel, every trailing byte string and all 256^3 version triples.',
        'design_ref': 'DESIGN.md 4 C18',
        'note': COMMON_NOTE,
    },
    'C20': {
        'text': 'frame_parts is verified against its contract for an arbitrary byte string (unsigned big-endian type, channel, size; '
                '(0, 0, None) below 7 octets, no exception); lemmas show that for every frame built by the low-level encoder the '
                'peeked size + 8 is the frame length, and that the decoder accepts exactly size + 8 octets on the peeked channel '
                '(body frames; other kinds through the total contract of frame.unmarshal).',
        'design_ref': 'DESIGN.md 4 C20',
        'note': COMMON_NOTE,
    },
})
CHECKS.update({
    'C19': {
        'text': 'For each of the 64 method classes and Basic.Properties, the six mapping functions of base._AMQData (__iter__, __len__, '
                '__contains__, __getitem__, attributes, amqp_type) are executed symbolically on an instance with arbitrary (opaque) '
                'attribute values and compared with the ordered argument list of the specification table; 390 contracts, no bound.',
        'design_ref': 'DESIGN.md 4 C19',
        'note': COMMON_NOTE + 'The "after a round trip" clause follows from C01/C02 (same class, attributes set by name).',
    },
    'C13': {
        'text': 'Per validating class (21, taken from the specification table): validate raises ValueError iff a constraint is broken, '
                '__init__ stores its arguments and raises iff validate does, base.Frame.marshal re-validates before producing bytes, '
                'base.Frame.unmarshal assigns received values without validating; name lengths are symbolic character counts; the '
                'compiled name patterns are shown equal to the specified character class on all 0x110000 code points.',
        'design_ref': 'DESIGN.md 4 C13',
        'note': COMMON_NOTE + 'I5: typed domains; an unset (None) argument is not validated by design. fullmatch is an uninterpreted '
                'predicate tied to the automaton check (A6). Basic.Properties validation: see C02 cone.',
    },
    'C04': {
        'text': 'Every encoder contract states result == specification bytes, with the specification written from the AMQP grammar '
                '(spec/wire.py, never imports pamqp): the primitive encoders, frame._marshal, base.Frame.marshal for each of the 64 '
                'classes (unrolled over the code slots, compared with the specification table order and LSB-first bit packing), '
                '_marshal_method_frame and frame.marshal per class, protocol header, heartbeat and body.',
        'design_ref': 'DESIGN.md 4 C04',
        'note': COMMON_NOTE + 'Table-valued arguments enter as the opaque specification function enc_table (the table encoder is '
                'verified against the field-table grammar in the C03 cone); float packing is assumption A3.',
    },
    'C01': {
        'text': '64 ghost lemmas, one per method class: frame.unmarshal(frame.marshal(C(args), ch) ++ rest) returns the encoded length, '
                'the channel, an instance of C and argument values equal in value and type (tables up to the C03 normalisation), for '
                'all typed valid argument values, channels and trailing bytes; each lemma composes contracts that are themselves '
                'discharged in this run (per-class marshal/unmarshal, method-frame encoders/decoders, primitives).',
        'design_ref': 'DESIGN.md 4 C01',
        'note': COMMON_NOTE + 'Assumed in the lemmas and decided in the C03 cone: dec_table(enc_table(d)) == norm_value(d).',
    },
    'C05': {
        'text': 'Decoders are verified against a reference decoder written from the grammar (spec.wire.args_parse / method_parse) over '
                'ARBITRARY octet strings: whenever the octets are grammar-valid (any integer bit pattern, unused bits set in bit octets, '
                'long strings that are not UTF-8, names the library would refuse to send) every attribute equals the reference value '
                'with its exact Python type; no validation on the decode path.',
        'design_ref': 'DESIGN.md 4 C05',
        'note': COMMON_NOTE + 'Field tables inside arguments enter through wf_table/dec_table (table decoder: C03 cone); content '
                'headers: C02 cone; timestamps and decimals through assumed library contracts.',
    },
    'C09': {
        'text': 'may-raise clauses, bottom-up: each primitive decoder raises only struct.error (short strings also '
                'UnicodeDecodeError); base.Frame.unmarshal[C] on arbitrary octets raises only struct.error/ValueError/OverflowError; '
                'frame._unmarshal_method_frame and every raising clause of frame.unmarshal raise only UnmarshalingException.',
        'design_ref': 'DESIGN.md 4 C09',
        'note': COMMON_NOTE + 'Nesting depth beyond the recursion limit is assumption A8.',
    },
})
CHECKS.update({
    'C02': {
        'text': 'All 2^14 presence patterns are ONE symbolic family: an optional attribute is set_j ? value_j : None, the encoding of '
                'property j a conditional chunk. BasicProperties.marshal / unmarshal are verified with index-dependent loop invariants '
                '(28 + 28 cut paths), ContentHeader.{__init__, marshal, _get_flags, unmarshal} and the frame-level encoders / decoders '
                'against the grammar; two ghost lemmas compose them: decode(encode(h, ch) ++ rest) returns the length, channel, class id '
                '60, body size and, per property, the value iff it was set (non-None, non-empty string), else None / empty cluster id; '
                'encode(Norm(h)) == encode(h).',
        'design_ref': 'DESIGN.md 4 C02',
        'note': COMMON_NOTE + 'Assumed and decided elsewhere: the table round trip for the headers table (C03 cone), timestamp library '
                'contracts (A5, C15). Header with three or more flag words: outside the grammar clause.',
    },
    'C08': {
        'text': 'Termination and progress as contract clauses: every loop on the decode path is either over a concrete list (unrolled / '
                'cut per index) or carries a variant that is bounded below and strictly decreases (ContentHeader._get_flags: '
                'len(data) - consumed); total contracts over ARBITRARY octets for every decoder mean no input is outside the analysis.',
        'design_ref': 'DESIGN.md 4 C08, 6',
        'note': COMMON_NOTE + 'Decided: termination, per-iteration progress, closed exception sets. NOT decided by contracts: wall-clock '
                'bounds and resident memory (I6); they are only MEASURED (bounded, never counted as proved) by bounded.decode_budget: trace '
                'events inside pamqp <= 60*len+3000 and tracemalloc peak <= 64*len+64KiB on valid frames and on frames whose embedded '
                'length fields are rewritten to huge values. Field-table / array decoder loops: C03 cone.',
    },
})
CHECKS.update({
    'C03': {
        'text': 'Encoders (encode_table_value, field_table, field_array, table_integer, the primitives) and decoders (embedded_value, '
                'field_table, field_array, the primitives; all 19 type tags) are verified from the real AST against the field-table '
                'grammar; containers are ghost sequences, the loops are cut on the remaining elements with one unfolding of the '
                'specification per iteration (no bound on length or depth; recursive calls use the contract). A ghost lemma shows '
                'decode(encode(v) ++ rest) == (len, Norm(v)) with the same Python type for every scalar type class.',
        'design_ref': 'DESIGN.md 4 C03',
        'note': COMMON_NOTE + 'For containers the composition of the two verified contracts (dec(enc(d)) == Norm(d)) is a '
                'specification-level structural induction: base and step are discharged by the unit spec.container-round-trip, the '
                'induction principle is the meta-rule (A11); additionally exercised by a bounded pipeline check against an '
                'independent reference codec. The decimal codecs are verified under the assumed Decimal library model (A5).',
    },
    'C10': {
        'text': 'Every encoder contract ranges over ALL Python type classes (bool, int, float, Decimal, str, bytes, bytearray, naive '
                'and aware datetime, struct_time, dict, list, tuple, None, foreign) and lists for each either the exact bytes - whose '
                'decoding is the normalised input by the lemmas of C01-C03 - or the exception class: no path returns other bytes. '
                'Includes encode.bit for non-flag integers and field_table for falsy non-dicts.',
        'design_ref': 'DESIGN.md 4 C10',
        'note': COMMON_NOTE + 'encode.decimal: bounded only. Values of foreign types: A8.',
    },
    'C12': {
        'text': 'Determinism: every encoder clause is "returns <function of the argument values>". Order independence: the '
                'specification encodes dict_sorted(d) and the loop invariant of field_table can only be established over the sorted '
                'entry sequence. Non-mutation: every write to an object that existed before the call (argument containers, frame '
                'attributes, module or class state, default arguments) fails a modifies-nothing obligation.',
        'design_ref': 'DESIGN.md 4 C12',
        'note': COMMON_NOTE + 'A4: sorted() on (name, value) pairs orders by name and depends on the contents only. A bounded '
                'pipeline check encodes generated tables in reversed / rotated insertion order.',
    },
    'C15': {
        'text': 'encode.timestamp and decode.timestamp are verified against contracts stated in whole seconds since the epoch; the '
                'library model gives every host-time-zone dependent call (time.mktime, naive datetime.timestamp(), fromtimestamp() '
                'without tz, astimezone()) a term containing the UNINTERPRETED function LOCAL_OFFSET, so an obligation that such '
                'code reaches cannot be discharged: the quantifier over TZ settings becomes a universally quantified ghost function.',
        'design_ref': 'DESIGN.md 4 C15',
        'note': COMMON_NOTE + 'Trusted: the classification of library functions (A5) and exactness of float timestamps (A3). '
                'A bounded add-on runs the codecs in child processes under several TZ settings (DST transition instants included).',
    },
    'C16': {
        'text': 'Frame and freshness clauses on the real code: constructors store their arguments and allocate a fresh table / '
                'property set when none is given; every decoder returns containers and objects allocated by that call; encoders '
                'write nothing that existed before the call; only support_deprecated_rabbitmq writes module state. With those '
                'clauses each call in a sequential history is the function of its arguments and the switch given by its contract.',
        'design_ref': 'DESIGN.md 4 C16, 6',
        'note': COMMON_NOTE + 'The thorough tier adds a stress run (4 threads, 1 us switch interval, every outcome compared with a fresh single-threaded child): a witness generator, not an exploration. THREAD SCHEDULES ARE NOT DECIDED: the family has no concurrency reasoning here; the thread clause '
                'rests on the sufficient condition (no shared mutable state between calls on disjoint arguments).',
    },
})
NOT_APPLICABLE = {}
