"""Texts for MANIFEST.json (one entry per claimed property)."""
HOOK_COMMITS = []
COMMON_NOTE = ('Trusted: the pyvc generator and its library models (struct, utf-8, re, datetime; cross-checked against CPython on '
               'concrete inputs), z3/cvc5, CPython ast; Python ints are mathematical so no machine-arithmetic idealisation. '
               'Functions outside the executor subset fall back to a bounded run-time check of the same contract, labelled '
               'bounded in the evidence and never counted as discharged. ')
CHECKS = {
    'C11': {
        'text': 'Every obligation of the integer-encoder contracts (table_integer, _deprecated_table_integer, the five fixed-width '
                'encoders, octet, the legacy switch and two toggle lemmas) is generated from the real AST and discharged by z3 for a '
                'symbolic mathematical integer and a symbolic switch value: the ladder b,s,u,I,i,l / b,s,I,l, TypeError outside s64 and '
                'outside each fixed width, for all integers at once (no bound).',
        'design_ref': 'DESIGN.md 4 C11',
        'note': COMMON_NOTE + 'Assumes the switch holds a bool. Nested positions are covered by the table-encoder contracts of C03/C04 '
                'which pass the switch through unchanged.',
    },
}
CHECKS.update({
    'C14': {
        'text': 'Finite module invariant: about 1400 ground obligations compare every attribute of the 64 classes reachable through '
                'INDEX_MAPPING and of Basic.Properties (ids, index, name, slots, wire types, sync flag, replies, constructor and '
                'documented defaults, flag bits) with an independently transcribed specification table; exhaustive.',
        'design_ref': 'DESIGN.md 4 C14',
        'note': 'Trusted: the hand-transcribed table spec/tables.py (written from the AMQP 0-9-1 + RabbitMQ method catalogue, never '
                'imports pamqp). Values are concrete, so obligations are decided by evaluation on the freshly imported real module; '
                'tools/codegen.py is not executed.',
        'technique': 'ground obligations over the imported real module against a transcribed specification table (exhaustive)',
    },
    'C17': {
        'text': 'Finite module invariant: 18 reply codes x (mapping, value, name, soft xor hard base, common base, instance) and the '
                'protocol constants, as ground obligations against a transcribed table; exhaustive.',
        'design_ref': 'DESIGN.md 4 C17',
        'note': 'Trusted: the transcribed reply-code table in spec/tables.py.',
        'technique': 'ground obligations over the imported real module against a transcribed specification table (exhaustive)',
    },
    'C06': {
        'text': 'frame.unmarshal is verified against a total contract over an arbitrary byte string (12 clauses) and an envelope '
                'clause (whenever it returns: count = size + 8 <= len, last consumed octet 0xCE, channel and kind from the header; '
                'protocol header only after AMQP); a ghost lemma shows that appending any bytes to a buffer that decodes completely '
                'changes neither result nor count and leaves exactly the appended bytes. All byte strings, no length bound.',
        'design_ref': 'DESIGN.md 4 C06',
        'note': COMMON_NOTE + 'The method and content-header payload decoders enter frame.unmarshal through their total contracts; '
                'object equality across the two calls of the lemma is shown for body, heartbeat and protocol header, and kind, '
                'channel and count for all kinds.',
    },
    'C07': {
        'text': 'Ghost lemma over the total contract of frame.unmarshal: for the protocol header and for every frame header with '
                'type in {1,2,3} and size >= 1 or the heartbeat, every cut point (8 + 7 concrete header cuts, and a symbolic cut '
                'inside payload + end octet) raises UnmarshalingException; plus the envelope clause that no successful decode '
                'reports more octets than supplied.',
        'design_ref': 'DESIGN.md 4 C07',
        'note': COMMON_NOTE + 'The received part of the payload is an arbitrary byte string (stronger than a prefix of a valid payload).',
    },
    'C18': {
        'text': 'Contracts for ContentBody (init, len, marshal, unmarshal), Heartbeat.marshal, ProtocolHeader (init, marshal, '
                'unmarshal), frame._marshal, frame.marshal and frame.unmarshal are discharged from the real AST; four ghost lemmas '
                'compose them into the round trips for every payload of length 1..2^32-1 (an opaque byte string, so 0xCE / AMQP '
                'look-alikes are covered), every channel, every trailing byte string and all 256^3 version triples.',
        'design_ref': 'DESIGN.md 4 C18',
        'note': COMMON_NOTE,
    },
    'C20': {
        'text': 'frame_parts is verified against its contract for an arbitrary byte string (unsigned big-endian type, channel, size; '
                '(0, 0, None) below 7 octets, no exception); lemmas show that for every frame built by the low-level encoder the '
                'peeked size + 8 is the frame length, and that the decoder accepts exactly size + 8 octets on the peeked channel '
                '(body frames; other kinds through the total contract of frame.unmarshal).',
        'design_ref': 'DESIGN.md 4 C20',
        'note': COMMON_NOTE,
    },
})
NOT_APPLICABLE = {}
