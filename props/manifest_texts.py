"""Texts for MANIFEST.json (one entry per claimed property)."""
HOOK_COMMITS = []
COMMON_NOTE = ('Trusted: the pyvc generator and its library models (struct, utf-8, re, datetime; cross-checked against CPython on '
               'concrete inputs), z3/cvc5, CPython ast; Python ints are mathematical so no machine-arithmetic idealisation. '
               'Functions outside the executor subset fall back to a bounded run-time check of the same contract, labelled '
               'bounded in the evidence and never counted as discharged. ')
CHECKS = {
    'C11': {
        'text': 'Every obligation of the integer-encoder contracts (table_integer, _deprecated_table_integer, the five fixed-width '
                'encoders, octet, the legacy switch and two toggle lemmas) is generated from the real AST and discharged by z3 for a '
                'symbolic mathematical integer and a symbolic switch value: the ladder b,s,u,I,i,l / b,s,I,l, TypeError outside s64 and '
                'outside each fixed width, for all integers at once (no bound).',
        'design_ref': 'DESIGN.md 4 C11',
        'note': COMMON_NOTE + 'Assumes the switch holds a bool. Nested positions are covered by the table-encoder contracts of C03/C04 '
                'which pass the switch through unchanged.',
    },
}
NOT_APPLICABLE = {}
