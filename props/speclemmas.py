"""Specification-level lemmas (no code of /repo involved): the composition of
the encoder-side and decoder-side grammar functions for containers,

    wf_table(enc_table(d))  and  dec_table(enc_table(d)) == Norm(d)      (A11),

by structural induction over the sorted entry sequence (tables) and the item
sequence (arrays).  The induction principle itself is the meta-rule; what is
machine-checked here are the *base* and *step* obligations, stated over the same
uninterpreted functions and one-step unfoldings the code contracts use:

  step (entries):  S non-empty, encodable;  IH-value: EV(head S) is a grammar-valid
      value V with value_obj(V) == Norm(head S);  IH-tail: EE(tail S) == WEB(T') for a
      wire sequence T' with apply_entries(T', D) == apply_norm(tail S, D) for the D needed;
      then the wire sequence T := cons(utf8(trunc key), V, T') satisfies
      EE(S) == WEB(T)  and  apply_entries(T, D0) == apply_norm(S, D0).

`apply_norm` (the dict the documented normalisation assigns: names truncated to 128
characters, values normalised, applied in encoding order) is *defined* by its
one-step unfolding, exactly like apply_entries."""
import z3

from props.catalog import ground
from pyvc import sym
from pyvc.contract import Result, check_goal
from pyvc.sym import State, SBytes, B, I
from spec import wire

apply_norm = z3.Function('apply_norm', wire.Obj, z3.BoolSort(), wire.Obj, wire.Obj)      # (entries, legacy, dict) -> dict
append_norm = z3.Function('append_norm', wire.Obj, wire.Obj, wire.Obj)                  # (items, list) -> list


def _res(st, name, goal, exact=True):
    r = check_goal(st, name, goal, exact=exact, kind='spec-lemma')
    return r


@ground('spec.container-round-trip')
def container_round_trip(reg, opts):
    out = []
    for legacy in (False, True):
        lg = z3.BoolVal(legacy)
        tag = 'legacy' if legacy else 'full'

        # ---------------- entries: step
        st = State()
        S = st.fresh('S', wire.Obj)
        wire.seq_facts(st, S)
        wire.nil_facts(st, S, legacy)
        st.assume(z3.And(z3.Not(wire.seq_nil(S)), wire.entries_ok(S, lg)))
        wire.refine_entries(st, S, legacy)                       # EE(S) = name ++ EV(head) ++ EE(tail)
        tail = wire.seq_tail(S)
        k128 = wire.trunc_key_term(st, sym.SStr(wire.seq_key(S)))
        V = st.new_chunk(term=wire.enc_value(wire.seq_head(S), lg))
        # IH-value
        st.assume(z3.And(wire.wf_value(V.t), V.len >= 1, wire.value_obj(V.t) == wire.norm_value(wire.seq_head(S))))
        # IH-tail: a wire sequence T' with the same octets and the same fold (instantiated at the dict needed)
        T1 = st.fresh('T_tail', wire.Obj)
        wire.w_nil_facts(st, T1)
        st.assume(wire.w_entries_bytes(T1) == wire.enc_entries(tail, lg))
        D0 = st.fresh('D0', wire.Obj)
        D1 = wire.dict_set(D0, st.str_term(k128), wire.norm_value(wire.seq_head(S)))
        st.assume(wire.apply_entries(T1, D1) == apply_norm(tail, lg, D1))
        # definition of apply_norm, one unfolding at S
        st.assume(apply_norm(S, lg, D0) == apply_norm(tail, lg, D1))
        # the wire sequence T := cons(utf8(name), V, T')
        T = st.fresh('T', wire.Obj)
        wire.w_nil_facts(st, T)
        st.assume(z3.And(z3.Not(wire.seq_nil(T)), wire.seq_tail(T) == T1,
                         wire.w_name(T) == sym.utf8(st.str_term(k128)), wire.w_val(T) == V.t))
        K, V2 = wire.w_unfold_entries(st, T)                      # WEB(T) = [klen][K][V][WEB(tail T)]
        key = wire.utf8_str(st, SBytes([K]))
        st.assume(wire.apply_entries(T, D0) == wire.apply_entries(
            wire.seq_tail(T), wire.dict_set(D0, st.str_term(key), wire.value_obj(V2.t))))     # definition, one unfolding at T
        t, exact = st.rope_eq(SBytes([st.new_chunk(term=wire.enc_entries(S, lg))]),
                              SBytes([st.new_chunk(term=wire.w_entries_bytes(T))]))
        out.append(_res(st, 'spec.entries-step[%s]#same-octets' % tag, t, exact))
        out.append(_res(st, 'spec.entries-step[%s]#same-dict' % tag, wire.apply_entries(T, D0) == apply_norm(S, lg, D0)))
        out.append(_res(st, 'spec.entries-step[%s]#name-is-valid-utf8-of-at-most-255-octets' % tag,
                        z3.And(sym.utf8_valid(K.t), K.len <= 255)))
        r = st.check()
        out.append(Result('spec.entries-step[%s]#hypotheses-satisfiable' % tag, 'proved' if r == z3.sat else 'undecided',
                          detail='' if r == z3.sat else 'hypotheses are contradictory: vacuous', kind='cover'))

        # ---------------- entries: base
        st = State()
        S = st.fresh('S', wire.Obj)
        wire.nil_facts(st, S, legacy)
        st.assume(wire.seq_nil(S))
        T = st.fresh('T', wire.Obj)
        wire.w_nil_facts(st, T)
        st.assume(wire.seq_nil(T))
        e1, e2 = st.new_chunk(term=wire.enc_entries(S, lg)), st.new_chunk(term=wire.w_entries_bytes(T))
        out.append(_res(st, 'spec.entries-base[%s]#both-empty' % tag, z3.And(e1.len == 0, e2.len == 0)))

        # ---------------- items: step
        st = State()
        S = st.fresh('S', wire.Obj)
        wire.seq_facts(st, S)
        wire.nil_facts(st, S, legacy)
        st.assume(z3.And(z3.Not(wire.seq_nil(S)), wire.items_ok(S, lg)))
        wire.refine_items(st, S, legacy)
        tail = wire.seq_tail(S)
        V = st.new_chunk(term=wire.enc_value(wire.seq_head(S), lg))
        st.assume(z3.And(wire.wf_value(V.t), V.len >= 1, wire.value_obj(V.t) == wire.norm_value(wire.seq_head(S))))
        T1 = st.fresh('T_tail', wire.Obj)
        wire.w_nil_facts(st, T1)
        st.assume(wire.w_items_bytes(T1) == wire.enc_items(tail, lg))
        L0 = st.fresh('L0', wire.Obj)
        L1 = wire.list_snoc(L0, wire.norm_value(wire.seq_head(S)))
        st.assume(wire.append_items(T1, L1) == append_norm(tail, L1))
        st.assume(append_norm(S, L0) == append_norm(tail, L1))
        T = st.fresh('T', wire.Obj)
        wire.w_nil_facts(st, T)
        st.assume(z3.And(z3.Not(wire.seq_nil(T)), wire.seq_tail(T) == T1, wire.w_val(T) == V.t))
        V2 = wire.w_unfold_items(st, T)
        st.assume(wire.append_items(T, L0) == wire.append_items(wire.seq_tail(T), wire.list_snoc(L0, wire.value_obj(V2.t))))
        t, exact = st.rope_eq(SBytes([st.new_chunk(term=wire.enc_items(S, lg))]),
                              SBytes([st.new_chunk(term=wire.w_items_bytes(T))]))
        out.append(_res(st, 'spec.items-step[%s]#same-octets' % tag, t, exact))
        out.append(_res(st, 'spec.items-step[%s]#same-list' % tag, wire.append_items(T, L0) == append_norm(S, L0)))
        r = st.check()
        out.append(Result('spec.items-step[%s]#hypotheses-satisfiable' % tag, 'proved' if r == z3.sat else 'undecided',
                          detail='' if r == z3.sat else 'vacuous', kind='cover'))

        # ---------------- table level: the length prefix and the fold from the empty dict
        st = State()
        d = sym.SOpaque('dict', st.fresh('d', wire.Obj))
        from pyvc.contract import obj_nonempty
        st.assume(z3.And(obj_nonempty(d.t), wire.table_encodable(d.t, lg)))
        enc = wire.table_unfold(st, d, legacy)                    # be4(len X) ++ X, X = EE(sorted d)
        es = wire.dict_sorted(d.t)
        T = st.fresh('T', wire.Obj)
        wire.w_nil_facts(st, T)
        # induction result for the whole entry sequence
        st.assume(z3.And(wire.w_entries_bytes(T) == wire.enc_entries(es, lg),
                         wire.apply_entries(T, wire.EMPTY_DICT) == apply_norm(es, lg, wire.EMPTY_DICT)))
        segs = st.expand(enc.segs)
        ln = State.unpack_uint(segs[:4])
        body = st.new_chunk(term=wire.w_entries_bytes(T))
        out.append(_res(st, 'spec.table[%s]#length-prefix-then-a-wire-entry-sequence' % tag,
                        z3.And(I(ln) == body.len, body.len >= 1)))
    return out
