"""C16, thread clause (bounded stress, never counted as proved): the calls of the API session run concurrently in four
threads of one process; every outcome must equal the outcome of the same call in a fresh single-threaded child."""
import json

from props import bounded
from pyvc import replay


def thread_session(prop, tier, rng):
    jobs = [(k, j) for k, j in bounded._session_jobs(rng, 1) if 'globals' not in j and k != 'texts']
    rng.shuffle(jobs)
    jobs = jobs[:260 if tier == 'thorough' else 160]
    # calls whose interplay matters most come first in every thread's order: constructions that warn, decodes, tables
    plain = [j for _, j in jobs]
    # process-global interpreter state that library code may touch shows only when the calls that touch it and the calls
    # that depend on it overlap: a deprecated construction (warns) against many method-frame decodes
    from pyvc import values as _values
    ack = _values.encode(b'\x01\x00\x01\x00\x00\x00\x0d\x00\x3c\x00\x50\x00\x00\x00\x00\x00\x00\x00\x01\x00\xce')
    mixed = []
    for k, j in enumerate(plain):
        mixed.append(j)
        if k % 3 == 0:
            mixed.append({'target': 'pyvc.probe.session_default', 'args': ['Basic.RecoverAsync']})
            mixed.append({'target': 'pyvc.probe.session_unmarshal', 'args': [ack]})
    plain = mixed
    n = len(plain)
    viol, checked, runs = [], 0, []
    for name, setup in (('default settings', None), ('warnings as errors', {'warnings': 'error'})):
        fresh = replay.native_calls([dict(j, isolate=True, wall_s=5) for j in plain], 600, setup)
        orders = []
        for _ in range(4):
            o = list(range(n))
            rng.shuffle(o)
            orders.append(o)
        job = {'target': 'pyvc.thread_session.run_json', 'args': [json.dumps(plain), json.dumps(orders), 3 if tier == 'thorough' else 2],
               'isolate': True, 'wall_s': 120, 'count_steps': False}
        obs = replay.native_calls([job], 300, setup)[0]
        if obs.get('outcome') != 'return':
            runs.append({'settings': name, 'outcome': obs.get('outcome')})
            continue
        res = json.loads(obs['value'])
        bad = None
        for t, rows in enumerate(res['results']):
            for i, out in rows:
                exp = fresh[i]
                if exp.get('outcome') not in ('return', 'raise') or out.get('outcome') not in ('return', 'raise'):
                    continue
                checked += 1
                if not bounded._same_outcome(exp, out) and bad is None:
                    bad = (t, i, exp, out)
        runs.append({'settings': name, 'threads': 4, 'calls_per_thread': len(res['results'][0]), 'unfinished_threads': res['unfinished']})
        if bad is not None:
            t, i, exp, out = bad
            rjob = dict(job)
            if setup:
                rjob['setup'] = setup
            viol.append(bounded._violation(
                prop, plain[i]['target'] + ' [4 threads, %s]' % name, rjob,
                'in every thread the outcome of call %d (%s) equals its outcome in a fresh single-threaded child: %s'
                % (i, json.dumps(plain[i])[:200], json.dumps(exp)[:200]),
                {'thread': t, 'outcome': out}, against='the same call in a fresh interpreter'))
    # focused repetitions: only the calls that touch / depend on interpreter-wide state (warning filters), many times over
    focus = [{'target': 'pyvc.probe.session_default', 'args': ['Basic.RecoverAsync']},
             {'target': 'pyvc.probe.session_unmarshal', 'args': [ack]},
             {'target': 'pyvc.probe.session_default', 'args': ['Basic.Recover']}]
    setup = {'warnings': 'error'}
    fresh = replay.native_calls([dict(j, isolate=True, wall_s=5) for j in focus], 600, setup)
    reps = 8 if tier == 'thorough' else 5
    hit = None
    for rep in range(reps):
        job = {'target': 'pyvc.thread_session.run_json', 'args': [json.dumps(focus), json.dumps([[0, 1, 2] * 60 for _ in range(4)]), 3],
               'isolate': True, 'wall_s': 120, 'count_steps': False}
        obs = replay.native_calls([job], 300, setup)[0]
        if obs.get('outcome') != 'return':
            continue
        for t, rows in enumerate(json.loads(obs['value'])['results']):
            for i, out in rows:
                checked += 1
                if hit is None and fresh[i].get('outcome') in ('return', 'raise') and out.get('outcome') in ('return', 'raise') \
                        and not bounded._same_outcome(fresh[i], out):
                    hit = (t, i, out, job)
        if hit:
            break
    runs.append({'settings': 'warnings as errors, focused on interpreter-wide state', 'threads': 4, 'repetitions': rep + 1})
    if hit and not viol:
        t, i, out, job = hit
        viol.append(bounded._violation(
            prop, focus[i]['target'] + ' [4 threads, warnings as errors]', dict(job, setup=setup),
            'in every thread the outcome of %s equals its outcome in a fresh single-threaded child: %s'
            % (json.dumps(focus[i])[:200], json.dumps(fresh[i])[:200]), {'thread': t, 'outcome': out},
            against='the same call in a fresh interpreter'))
    return {'violations': viol, 'coverage': {'bounded_pipeline_checks': [
        {'what': 'thread stress (NOT an exploration of interleavings): %d calls of the API session run concurrently in 4 threads of one '
                 'process, switch interval 1 us, each outcome compared with the same call in a fresh single-threaded child' % n,
         'runs': runs, 'inputs': checked, 'failures': len(viol), 'bounded': True}]}}
