"""Finite module invariants (C14, C17): every value is concrete, so each
obligation is a ground equality between the independently transcribed
specification table (spec/tables.py) and what the real, freshly imported
module holds.  Exhaustive by construction."""
import inspect
import re
import warnings

from props.catalog import ground, gres
from spec import tables


def _native_job(target, args=()):
    return {'target': target, 'args': list(args)}


@ground('C14.catalogue')
def c14_catalogue(reg, opts):
    from pamqp import commands, base
    out = []
    im = commands.INDEX_MAPPING
    out.append(gres('commands.INDEX_MAPPING#exactly-64-entries', len(im) == 64, 'len=%d' % len(im)))
    out.append(gres('commands.INDEX_MAPPING#keys-are-the-specified-indices',
                    set(im) == set(tables.BY_INDEX),
                    'extra=%s missing=%s' % (sorted(set(im) - set(tables.BY_INDEX)),
                                             sorted(set(tables.BY_INDEX) - set(im)))))
    out.append(gres('commands.INDEX_MAPPING#each-class-mapped-once', len(set(map(id, im.values()))) == len(im)))
    for m in tables.METHODS:
        cls = im.get(m.index)
        p = 'commands.%s' % m.name
        if cls is None:
            out.append(gres(p + '#reachable-through-index-mapping', False, 'index %#010x not mapped' % m.index))
            continue
        holder = getattr(commands, m.pyclass, None)
        out.append(gres(p + '#is-the-class-of-that-name', holder is not None and getattr(holder, m.pymethod, None) is cls,
                        'INDEX_MAPPING[%#010x] is %r' % (m.index, getattr(cls, 'name', cls))))
        out.append(gres(p + '#derives-from-base.Frame', isinstance(cls, type) and issubclass(cls, base.Frame)))
        out.append(gres(p + '#class-id', getattr(holder, 'frame_id', None) == m.class_id,
                        'class frame_id=%r spec=%d' % (getattr(holder, 'frame_id', None), m.class_id)))
        out.append(gres(p + '#class-index', getattr(holder, 'index', None) == m.class_id << 16,
                        'got %r' % (getattr(holder, 'index', None),)))
        out.append(gres(p + '#method-id', cls.frame_id == m.method_id, 'frame_id=%r spec=%d' % (cls.frame_id, m.method_id), probe='pamqp.commands.%s.frame_id' % m.name))
        out.append(gres(p + '#index', cls.index == m.index, 'index=%#010x spec=%#010x' % (cls.index, m.index), probe='pamqp.commands.%s.index' % m.name))
        out.append(gres(p + '#dotted-name', cls.name == m.name, 'name=%r' % (cls.name,), probe='pamqp.commands.%s.name' % m.name))
        out.append(gres(p + '#argument-names-in-wire-order', list(cls.__slots__) == [f.name for f in m.fields],
                        'slots=%r spec=%r' % (list(cls.__slots__), [f.name for f in m.fields]),
                        probe='pamqp.commands.%s.__slots__' % m.name))
        types_ = [getattr(cls, '_' + f.name, None) for f in m.fields]
        out.append(gres(p + '#argument-wire-types', types_ == [f.wire for f in m.fields],
                        'types=%r spec=%r' % (types_, [f.wire for f in m.fields])))
        out.append(gres(p + '#expects-a-reply', cls.synchronous is m.synchronous,
                        'synchronous=%r spec=%r' % (cls.synchronous, m.synchronous), probe='pamqp.commands.%s.synchronous' % m.name))
        out.append(gres(p + '#valid-replies', list(cls.valid_responses) == m.responses,
                        'valid_responses=%r spec=%r' % (cls.valid_responses, m.responses),
                        probe='pamqp.commands.%s.valid_responses' % m.name))
        out.append(gres(p + '#sync-iff-replies', bool(cls.synchronous) == bool(cls.valid_responses)))
        ok = all(r.split('.')[0] == m.pyclass and r in tables.BY_NAME and
                 getattr(getattr(commands, r.split('.')[0], None), r.split('.')[1], None) is not None
                 for r in cls.valid_responses)
        out.append(gres(p + '#replies-exist-in-the-same-class', ok))
        # constructor defaults: signature defaults and the effective attribute after C()
        sig = inspect.signature(cls.__init__)
        params = [n for n in sig.parameters if n != 'self']
        if cls.__init__ is object.__init__:
            params = []      # no arguments: the class inherits object.__init__
        out.append(gres(p + '#constructor-parameters-are-the-arguments', params == [f.name for f in m.fields],
                        'params=%r' % (params,)))
        with warnings.catch_warnings():
            warnings.simplefilter('ignore')
            try:
                obj = cls()
                eff = {f.name: getattr(obj, f.name, '<unset>') for f in m.fields}
            except Exception as exc:
                eff = None
                out.append(gres(p + '#constructible-with-defaults', False, repr(exc)))
        if eff is not None:
            for f in m.fields:
                got = eff[f.name]
                same = (got == f.default and type(got) is type(f.default))
                out.append(gres('%s#default:%s' % (p, f.name), same, 'default=%r spec=%r' % (got, f.default)))
                sd = sig.parameters[f.name].default if f.name in sig.parameters else '<missing>'
                want_sig = None if f.wire == 'table' else f.default
                out.append(gres('%s#signature-default:%s' % (p, f.name),
                                sd == want_sig and type(sd) is type(want_sig), 'signature=%r spec=%r' % (sd, want_sig)))
        # documented defaults
        doc = cls.__doc__ or ''
        documented = dict(_doc_defaults(doc))
        for f in m.fields:
            want = f.default
            if f.name in documented:
                text = documented[f.name]
                shown = "''" if want == '' else str(want)
                out.append(gres('%s#documented-default:%s' % (p, f.name), want is not None and text == shown,
                                'docstring says %r, specification default %r' % (text, want)))
            else:
                out.append(gres('%s#documented-default:%s' % (p, f.name), want is None,
                                'no default documented, specification default %r' % (want,)))
    return out


def _doc_defaults(doc):
    cur = None
    for line in doc.splitlines():
        m = re.match(r'\s*:param (\w+):', line)
        if m:
            cur = m.group(1)
            continue
        m = re.match(r'\s*- Default: ``(.*)``\s*$', line)
        if m and cur:
            yield cur, m.group(1)


@ground('C14.properties')
def c14_properties(reg, opts):
    from pamqp import commands, base
    P = commands.Basic.Properties
    out = []
    names = [n for n, _, _ in tables.PROPERTIES]
    out.append(gres('Basic.Properties#derives-from-base.BasicProperties', issubclass(P, base.BasicProperties)))
    out.append(gres('Basic.Properties#14-names-in-specification-order', list(P.__slots__) == names, 'slots=%r' % (P.__slots__,)))
    out.append(gres('Basic.Properties#flags-cover-exactly-the-properties', set(P.flags) == set(names)))
    out.append(gres('Basic.Properties#class-id-60', P.frame_id == 60 and commands.Basic.frame_id == 60))
    out.append(gres('Basic.Properties#name', P.name == 'Basic.Properties'))
    sig = inspect.signature(P.__init__)
    out.append(gres('Basic.Properties#constructor-parameters', [n for n in sig.parameters if n != 'self'] == names))
    obj = P()
    for n, bit, wire in tables.PROPERTIES:
        out.append(gres('Basic.Properties#flag:%s' % n, P.flags.get(n) == 1 << bit, 'flag=%r spec=%d' % (P.flags.get(n), 1 << bit),
                        probe='pamqp.commands.Basic.Properties.flags.%s' % n))
        out.append(gres('Basic.Properties#wire-type:%s' % n, getattr(P, '_' + n, None) == wire,
                        'type=%r spec=%r' % (getattr(P, '_' + n, None), wire)))
        want = tables.PROPERTY_DEFAULTS[n]
        got = getattr(obj, n, '<unset>')
        out.append(gres('Basic.Properties#default:%s' % n, got == want and type(got) is type(want), 'default=%r' % (got,)))
        sd = sig.parameters[n].default
        out.append(gres('Basic.Properties#signature-default:%s' % n, sd == want and type(sd) is type(want)))
    return out


@ground('C17.reply-codes')
def c17_reply_codes(reg, opts):
    from pamqp import exceptions as ex
    out = []
    cm = ex.CLASS_MAPPING
    out.append(gres('exceptions.CLASS_MAPPING#exactly-18-codes', len(cm) == 18, 'len=%d' % len(cm)))
    out.append(gres('exceptions.CLASS_MAPPING#codes-are-the-specified-ones',
                    set(cm) == {c for c, _, _ in tables.REPLY_CODES}))
    out.append(gres('exceptions.CLASS_MAPPING#each-class-mapped-once', len(set(map(id, cm.values()))) == len(cm)))
    out.append(gres('exceptions#hierarchy', issubclass(ex.AMQPSoftError, ex.AMQPError) and
                    issubclass(ex.AMQPHardError, ex.AMQPError) and issubclass(ex.AMQPError, ex.PAMQPException)
                    and issubclass(ex.PAMQPException, Exception)
                    and not issubclass(ex.AMQPSoftError, ex.AMQPHardError)
                    and not issubclass(ex.AMQPHardError, ex.AMQPSoftError)))
    out.append(gres('exceptions.UnmarshalingException#is-a-PAMQPException',
                    issubclass(ex.UnmarshalingException, ex.PAMQPException)))
    for code, name, kind in tables.REPLY_CODES:
        cls = cm.get(code)
        p = 'exceptions[%d %s]' % (code, name)
        if cls is None:
            out.append(gres(p + '#mapped', False))
            continue
        out.append(gres(p + '#value', getattr(cls, 'value', None) == code, 'value=%r' % (getattr(cls, 'value', None),),
                        probe='pamqp.exceptions.CLASS_MAPPING.%d.value' % code))
        out.append(gres(p + '#name', getattr(cls, 'name', None) == name, 'name=%r' % (getattr(cls, 'name', None),)))
        soft, hard = issubclass(cls, ex.AMQPSoftError), issubclass(cls, ex.AMQPHardError)
        out.append(gres(p + '#soft-xor-hard-as-specified', (soft, hard) == ((True, False) if kind == 'soft' else (False, True)),
                        'soft=%r hard=%r spec=%s' % (soft, hard, kind), probe='pamqp.exceptions.CLASS_MAPPING.%d' % code))
        out.append(gres(p + '#catchable-as-common-base', issubclass(cls, ex.PAMQPException) and issubclass(cls, ex.AMQPError)))
        # instances carry the same value/name
        try:
            inst = cls()
            ok = inst.value == code and inst.name == name and isinstance(inst, ex.PAMQPException)
        except Exception as exc:
            ok = False
        out.append(gres(p + '#instance', ok))
    return out


@ground('C17.constants')
def c17_constants(reg, opts):
    from pamqp import constants
    out = []
    for k, v in tables.CONSTANTS.items():
        got = getattr(constants, k, '<missing>')
        out.append(gres('constants.%s' % k, got == v and type(got) is type(v), 'got %r, protocol says %r' % (got, v),
                        probe='pamqp.constants.%s' % k))
    return out


@ground('C13.name-character-class')
def c13_regex(reg, opts):
    """A6: the compiled DOMAIN_REGEX patterns denote exactly the specified
    character class.  Structure (anchored star over one character set) is read
    from CPython's own regex parser; the set is then compared with the
    specification on every one of the 0x110000 code points."""
    import re
    from pamqp import constants
    try:
        from re import _parser as sre_parse, _constants as sre_c
    except ImportError:  # python < 3.11
        import sre_parse
        import sre_constants as sre_c
    out = []
    for domain, cls_path, field in (('exchange-name', 'pamqp.commands.Exchange.Declare', 'exchange'),
                                    ('queue-name', 'pamqp.commands.Queue.Declare', 'queue')):
        pat = constants.DOMAIN_REGEX.get(domain)
        p = "constants.DOMAIN_REGEX['%s']" % domain
        if pat is None:
            out.append(gres(p + '#present', False))
            continue
        tree = list(sre_parse.parse(pat.pattern, pat.flags))
        ops = [t[0] for t in tree]
        shape = (len(tree) == 3 and ops[0] == sre_c.AT and ops[2] == sre_c.AT and ops[1] == sre_c.MAX_REPEAT
                 and tree[1][1][0] == 0 and tree[1][1][1] == sre_c.MAXREPEAT and len(tree[1][1][2]) == 1
                 and tree[1][1][2][0][0] in (sre_c.IN, sre_c.LITERAL))
        out.append(gres(p + '#anchored-star-over-one-character-set', shape, 'parsed: %r' % (tree,)))
        bad = None
        for cp in range(0x110000):
            ch = chr(cp)
            if (pat.fullmatch(ch) is not None) != (ch in tables.NAME_CHARSET):
                bad = ch
                break
        # the empty string and a two-character sample, to tie `*` down
        extra = pat.fullmatch('') is not None and pat.fullmatch('a/') is not None and pat.fullmatch('a\n') is None
        r = gres(p + '#same-language-as-the-specified-class-on-all-code-points', bad is None and extra,
                 'first differing character: %r (U+%04X)' % (bad, ord(bad)) if bad else '')
        if bad is not None:
            from pyvc import replay
            job = {'target': cls_path, 'kwargs': {field: bad}}
            obs = replay.native_calls([job])[0]
            r.replay = {'confirmed': True, 'args': {field: bad},
                        'expected': 'ValueError' if bad not in tables.NAME_CHARSET else 'accepted',
                        'observed': obs, 'job': job}
        out.append(r)
    return out
