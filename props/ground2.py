"""Ground units added after the third round of seeded changes: import-time state must not depend on the process
environment (C11: 'off by default'; C14 / C17: the tables are what the source says), and the reply-code table must
survive ordinary use of the exception classes (subclassing, raising without arguments)."""
import ast
import json
import os
import subprocess

from props.catalog import ground, gres
from pyvc import replay

REPO = os.environ.get('PAMQP_REPO', '/repo')
VERIF = os.path.dirname(os.path.dirname(os.path.abspath(__file__)))


def _child(code, env_extra=None, optimize=False):
    env = {k: v for k, v in os.environ.items() if not k.startswith('PAMQP_') or k in ('PAMQP_REPO',)}
    env['PYTHONPATH'] = '%s:%s' % (REPO, VERIF)
    env.update(env_extra or {})
    cmd = [replay.VENV_PY, '-W', 'ignore'] + (['-O'] if optimize else []) + ['-c', code]
    p = subprocess.run(cmd, capture_output=True, text=True, env=env, timeout=60, cwd=VERIF)
    if p.returncode != 0:
        return {'error': p.stderr[-300:]}
    try:
        return json.loads(p.stdout.strip().splitlines()[-1])
    except (ValueError, IndexError):
        return {'error': 'no output'}


SNAPSHOT = ("import json; from pyvc import probe; print(json.dumps(probe.import_state(), sort_keys=True))")


def env_names():
    """String literals used with os.environ / os.getenv anywhere in the package (AST); None in the list = a computed name."""
    names = []
    for fn in sorted(os.listdir(os.path.join(REPO, 'pamqp'))):
        if not fn.endswith('.py'):
            continue
        tree = ast.parse(open(os.path.join(REPO, 'pamqp', fn)).read())
        for node in ast.walk(tree):
            src = None
            if isinstance(node, ast.Call):
                f = ast.unparse(node.func)
                if f.endswith('environ.get') or f.endswith('getenv') or f.endswith('environ.setdefault') or f.endswith('environ.pop'):
                    src = node.args[0] if node.args else None
                    names.append(src.value if isinstance(src, ast.Constant) and isinstance(src.value, str) else None)
            elif isinstance(node, ast.Subscript) and ast.unparse(node.value).endswith('environ'):
                src = node.slice
                names.append(src.value if isinstance(src, ast.Constant) and isinstance(src.value, str) else None)
            elif isinstance(node, ast.Compare) and any(ast.unparse(c).endswith('environ') for c in node.comparators):
                src = node.left
                names.append(src.value if isinstance(src, ast.Constant) and isinstance(src.value, str) else None)
    return names


@ground('env.import-state')
def import_state(reg, opts):
    base = _child(SNAPSHOT)
    out = [gres('pamqp#imports-in-a-clean-environment', 'error' not in base, str(base.get('error')))]
    if 'error' in base:
        return out
    out.append(gres('pamqp.encode.DEPRECATED_RABBITMQ_SUPPORT#off-after-import', base.get('legacy_switch') is False,
                    'value after import: %r' % (base.get('legacy_switch'),)))
    names = env_names()
    literal = sorted({n for n in names if n})
    if None in names:
        r = gres('pamqp#reads-only-named-environment-variables', False, 'a computed environment variable name is read')
        r.verdict = 'undecided'
        out.append(r)
    for name in literal:
        for val in ('0', '1', 'false', 'no', ''):
            got = _child(SNAPSHOT, {name: val})
            same = got == base
            diff = sorted(k for k in set(base) | set(got) if base.get(k) != got.get(k))
            r = gres('pamqp#import-state-independent-of-%s=%r' % (name, val), same,
                     'module state after import differs in %s (e.g. %s: %r instead of %r)'
                     % (diff[:3], diff[0] if diff else '-', got.get(diff[0]) if diff else None, base.get(diff[0]) if diff else None))
            if not same:
                r.replay = {'confirmed': True, 'args': {'environment': {name: val}}, 'expected': 'the same module state as in a clean environment',
                            'observed': {k: got.get(k) for k in diff[:3]},
                            'job': {'target': 'pyvc.probe.import_state', 'args': [], 'env': {name: val}, 'fresh_process': True}}
            out.append(r)
    # optimised byte code (python -O strips assert): argument checks must not live in assert statements
    opt = _child(SNAPSHOT, optimize=True)
    out.append(gres('pamqp#import-state-independent-of-python-O', opt == base or 'error' in opt,
                    'module state differs under -O'))
    asserts = []
    for fn in sorted(os.listdir(os.path.join(REPO, 'pamqp'))):
        if fn.endswith('.py'):
            tree = ast.parse(open(os.path.join(REPO, 'pamqp', fn)).read())
            asserts += ['%s:%d' % (fn, n.lineno) for n in ast.walk(tree) if isinstance(n, ast.Assert)]
    r = gres('pamqp#no-behaviour-carried-by-assert-statements', not asserts,
             'assert statements (removed by python -O; an assert that can never fail is harmless, so this is not a verdict): %s' % asserts[:5])
    if asserts:
        r.verdict = 'undecided'
    out.append(r)
    return out


@ground('C17.table-survives-use')
def c17_use(reg, opts):
    code = ("import json; from pyvc import probe; print(json.dumps(probe.reply_code_use()))")
    got = _child(code)
    out = [gres('exceptions#usable', 'error' not in got, str(got.get('error')))]
    if 'error' in got:
        return out
    out.append(gres('exceptions.CLASS_MAPPING#unchanged-by-subclassing-the-reply-code-classes', not got['changed_by_subclassing'],
                    'codes whose class changed after an application subclassed it: %r' % (got['changed_by_subclassing'][:5],)))
    out.append(gres('exceptions#every-reply-code-class-can-be-raised-bare-and-with-a-text', not got['not_raisable'],
                    'raise cls / raise cls(text) gave another exception for: %r' % (got['not_raisable'][:5],)))
    out.append(gres('exceptions#an-instance-is-caught-by-its-own-class-only-among-the-18', not got['cross_caught'],
                    'caught by a sibling reply-code class: %r' % (got['cross_caught'][:5],)))
    for r in out:
        if r.verdict == 'refuted':
            r.replay = {'confirmed': True, 'args': {}, 'expected': 'changed_by_subclassing == [], not_raisable == [], cross_caught == []',
                        'observed': got, 'job': {'target': 'pyvc.probe.reply_code_use', 'args': []}}
    return out
