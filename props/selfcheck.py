"""Engine self-checks run with every property (DESIGN 2.4: the library models are
*tested, not proved*): each assumed library contract of pyvc.lib / pyvc.sym is
confronted with CPython on boundary and seeded random inputs.  A disagreement is
a checker malfunction (reported as a refuted ground obligation of the unit
'engine.library-models', i.e. the run fails), never silently tolerated."""
import calendar
import datetime
import decimal
import random
import struct
import time

from props.catalog import ground, gres


@ground('engine.library-models')
def library_models(reg, opts):
    rng = random.Random(opts.get('seed', 0))
    out = []

    # A2 struct: big-endian layouts and range errors
    bad = []
    for code, width, signed in (('B', 1, False), ('b', 1, True), ('H', 2, False), ('h', 2, True), ('I', 4, False),
                                ('i', 4, True), ('L', 4, False), ('l', 4, True), ('Q', 8, False), ('q', 8, True)):
        lo, hi = (-(2 ** (8 * width - 1)), 2 ** (8 * width - 1) - 1) if signed else (0, 2 ** (8 * width) - 1)
        for n in [lo, lo + 1, -1, 0, 1, hi - 1, hi] + [rng.randint(lo, hi) for _ in range(40)]:
            if not lo <= n <= hi:
                continue
            b = struct.pack('>' + code, n)
            u = sum(x * 256 ** (width - 1 - i) for i, x in enumerate(b))
            model = u - 256 ** width if (signed and b[0] >= 128) else u          # State.unpack_sint / pack_sint relation
            if model != n or len(b) != width or struct.unpack('>' + code, b)[0] != n:
                bad.append((code, n))
        for n in (lo - 1, hi + 1):
            try:
                struct.pack('>' + code, n)
                bad.append((code, n, 'accepted'))
            except struct.error:
                pass
    for fmt, size in (('>BHI', 7), ('>HxxQ', 12), ('>HHQ', 12), ('>Bi', 5), ('BBBB', 4), ('BBB', 3)):
        if struct.calcsize(fmt) != size:
            bad.append((fmt, 'size'))
    try:
        struct.unpack('>H', b'\x00')
        bad.append('short unpack accepted')
    except struct.error:
        pass
    try:
        struct.Struct('>B').unpack_from(b'', 0)
        bad.append('unpack_from past the end accepted')
    except struct.error:
        pass
    out.append(gres('engine.library-models#A2-struct', not bad, 'disagreements: %r' % (bad[:5],)))

    # bits: two's complement reading used by the relational bit model
    bad = []
    for _ in range(300):
        a, b = rng.randint(-2 ** 40, 2 ** 40), rng.randint(0, 2 ** 16 - 1)
        k = rng.randrange(0, 20)
        if (a & b) != sum(1 << i for i in range(16) if (b >> i) & 1 and ((a >> i) & 1)):
            bad.append(('and', a, b))
        if (a << k) != a * 2 ** k or (a >> k) != a // 2 ** k:
            bad.append(('shift', a, k))
        w = 64
        bits_a = [(a >> i) & 1 for i in range(w)]
        sign_a = 1 if a < 0 else 0
        if a != sum(bit << i for i, bit in enumerate(bits_a)) - sign_a * 2 ** w:
            bad.append(('decomposition', a))
    out.append(gres('engine.library-models#bit-operations', not bad, 'disagreements: %r' % (bad[:5],)))

    # A4 utf-8
    bad = []
    pool = ['', 'a', 'é', '€', '\U0001F600', 'x' * 300, 'é' * 128 + 'z', 'ab\ud800']
    alphabet = 'aZ09 -_.:@#,/é€\U0001F600\n\x00'
    pool += [''.join(rng.choice(alphabet) for _ in range(rng.randrange(0, 40))) for _ in range(60)]
    for s in pool:
        try:
            u = s.encode('utf-8')
        except UnicodeEncodeError:
            if '\ud800' not in s:
                bad.append(('unencodable', s))
            continue
        if not (len(s) <= len(u) <= 4 * len(s)) or u.decode('utf-8') != s:
            bad.append(('round trip / length bounds', s))
        p = s[0:128]
        if not (len(p) == min(len(s), 128) and len(p.encode('utf-8')) <= len(u)):
            bad.append(('prefix', s))
    for b in (b'\xff', b'\xc3', b'\xed\xa0\x80', b'\xf8\x88\x80\x80\x80'):
        try:
            b.decode('utf-8')
            bad.append(('invalid accepted', b))
        except UnicodeDecodeError:
            pass
    if not issubclass(UnicodeDecodeError, ValueError):
        bad.append('UnicodeDecodeError is not a ValueError')
    out.append(gres('engine.library-models#A4-utf8', not bad, 'disagreements: %r' % (bad[:5],)))

    # A4 sorted(items) depends on the contents only
    bad = []
    for _ in range(50):
        keys = list({''.join(rng.choice('abcxyzé0') for _ in range(rng.randrange(1, 5))) for _ in range(6)})
        d1 = {k: i for i, k in enumerate(keys)}
        ks2 = keys[:]
        rng.shuffle(ks2)
        d2 = {k: d1[k] for k in ks2}
        if sorted(d1.items()) != sorted(d2.items()) or [k for k, _ in sorted(d1.items())] != sorted(keys):
            bad.append(keys)
    out.append(gres('engine.library-models#A4-sorted-items', not bad, 'disagreements: %r' % (bad[:3],)))

    # A5 time: naive read as UTC, aware as absolute instant, timegm, fromtimestamp(tz=utc) bounds
    bad = []
    utc = datetime.timezone.utc
    epoch = datetime.datetime(1970, 1, 1, tzinfo=utc)
    for _ in range(200):
        s = rng.randrange(0, 2 ** 32)
        us = rng.randrange(0, 10 ** 6)
        naive = datetime.datetime(1970, 1, 1) + datetime.timedelta(seconds=s, microseconds=us)
        if int(naive.replace(tzinfo=utc).timestamp()) != s:
            bad.append(('naive-as-utc', s, us))
        off = datetime.timezone(datetime.timedelta(minutes=rng.randrange(-14 * 60, 14 * 60)))
        aware = (epoch + datetime.timedelta(seconds=s, microseconds=us)).astimezone(off)
        if int(aware.timestamp()) != s or aware.tzinfo.utcoffset(aware) is None:
            bad.append(('aware', s))
        if calendar.timegm(time.gmtime(s)) != s:
            bad.append(('timegm', s))
        d = datetime.datetime.fromtimestamp(s, tz=utc)
        if d != epoch + datetime.timedelta(seconds=s) or d.utcoffset() != datetime.timedelta(0):
            bad.append(('fromtimestamp', s))
    try:
        datetime.datetime.fromtimestamp(253402300799, tz=utc)
    except (ValueError, OverflowError, OSError):
        bad.append('253402300799 not representable')
    try:
        datetime.datetime.fromtimestamp(253402300800 + 86400 * 366, tz=utc)
        bad.append('beyond year 9999 accepted')
    except (ValueError, OverflowError, OSError) as exc:
        if not isinstance(exc, (ValueError, OverflowError)):
            bad.append('fromtimestamp raised %s' % type(exc).__name__)
    try:        # the millisecond reading: representable exactly up to 253402300799999 ms
        datetime.datetime.fromtimestamp(253402300799999 / 1000.0, tz=utc)
    except (ValueError, OverflowError, OSError):
        bad.append('253402300799999 ms not representable')
    for ms in (253402300800000, 10 ** 15, 2 ** 63, 2 ** 64 - 1):
        try:
            datetime.datetime.fromtimestamp(ms / 1000.0, tz=utc)
            bad.append('%d ms accepted' % ms)
        except (ValueError, OverflowError):
            pass
        except OSError:
            bad.append('%d ms raised OSError' % ms)
    out.append(gres('engine.library-models#A5-time', not bad, 'disagreements: %r' % (bad[:5],)))

    # A5 decimal: the one arithmetic shape the decoder uses
    bad = []
    for _ in range(200):
        n, k = rng.randint(-2 ** 31, 2 ** 31 - 1), rng.randrange(0, 256)
        v = decimal.Decimal(n) * (decimal.Decimal(10) ** -k)
        w = decimal.Decimal(n).scaleb(-k)
        if v != w or v.as_tuple().exponent != -k:
            bad.append((n, k))
    out.append(gres('engine.library-models#A5-decimal', not bad, 'disagreements: %r' % (bad[:5],)))

    # A3 floats: single-precision packing is idempotent rounding; overflow is OverflowError
    bad = []
    for x in [0.0, 1.5, -2.25, 0.1, 3.4028234663852886e38, 1e-45] + [rng.uniform(-1e30, 1e30) for _ in range(50)]:
        r = struct.unpack('>f', struct.pack('>f', x))[0]
        if struct.unpack('>f', struct.pack('>f', r))[0] != r:
            bad.append(x)
    try:
        struct.pack('>f', 1e39)
        bad.append('1e39 packed')
    except OverflowError:
        pass
    out.append(gres('engine.library-models#A3-float', not bad, 'disagreements: %r' % (bad[:5],)))
    return out


@ground('engine.assumed-views')
def assumed_views(reg, opts):
    """Every contract marked trusted is a *view* (union over a partition of the instances, or a weakening) of contracts
    that are verified against the real bodies.  Checked mechanically: the verified contracts exist, are not themselves
    trusted, are in the cone of some claimed property, and - for the per-class unions - there is one for every method
    of the specification table plus the short / unknown-id instance.  The implication itself is by construction."""
    from props.catalog import PROPS
    from spec import tables
    in_cone = set()
    for p in PROPS.values():
        in_cone.update(n for k, n in p.units() if k == 'contract')
    out = []
    for c in reg.all:
        if not c.trusted:
            continue
        names = list(c.established_by(reg)) if c.established_by else []
        bad = [n for n in names if reg.get(n) is None or reg.get(n).trusted or n not in in_cone]
        ok = bool(names) and not bad
        detail = 'no verified contract named' if not names else 'missing / trusted / outside every cone: %r' % bad[:4]
        if ok and '[' in names[0]:
            have = {n[n.index('[') + 1:-1] for n in names}
            missing = [m.name for m in tables.METHODS if m.name not in have]
            if c.name.endswith('_unmarshal_method_frame') or c.name.endswith('_unmarshal_method_frame(t)'):
                missing += [x for x in ('short-or-unknown-id',) if x not in have]
            if c.name.endswith('unmarshal(g)'):
                missing += [x for x in ('ContentHeader',) if x not in have]
            ok, detail = not missing, 'no verified instance for %r' % missing[:4]
        out.append(gres('engine.assumed-views#%s' % c.name, ok, detail))
    return out
