"""props.catalog -- which contracts, lemmas and ground tables decide which property."""
from pyvc.contract import Registry, Result


class PropSpec:
    def __init__(self, pid, contracts=(), lemmas=(), ground=(), floor=1, exhaustive=False,
                 assumptions=(), extra=None):
        self.pid = pid
        self.contracts = list(contracts)
        self.lemmas = list(lemmas)
        self.ground = list(ground)
        self.floor = floor
        self.exhaustive = exhaustive
        self.assumptions = list(assumptions)
        self.extra = extra

    def units(self):
        out = []
        for n in self.contracts + self.lemmas:
            out.append(('contract', n[0] if isinstance(n, tuple) else n))
        # the library models every obligation rests on are confronted with CPython on every run
        return out + [('ground', n) for n in self.ground] + [('ground', 'engine.library-models'), ('ground', 'engine.assumed-views')]

    def case_filter(self, name):
        """Only these clauses of a shared contract belong to this property (None = all)."""
        for n in self.contracts:
            if isinstance(n, tuple) and n[0] == name:
                return set(n[1])
        return None


def build_registry():
    reg = Registry()
    from contracts import encode_c, frame_c, decode_c
    decode_c.register(reg)
    encode_c.register(reg)
    for c in encode_c.lemmas():
        reg.add(c)
    frame_c.register(reg)
    from contracts import class_c, mapping_c
    class_c.register(reg)
    mapping_c.register(reg)
    from contracts import method_frame_c, props_c
    method_frame_c.register(reg)
    props_c.register(reg)
    from contracts import header_c
    header_c.register(reg)
    from contracts import table_c
    table_c.register(reg)
    return reg


GROUND = {}


def ground(name):
    def deco(f):
        GROUND[name] = f
        return f
    return deco


def run_unit(kind, name, reg, opts):
    if kind == 'ground':
        return GROUND[name](reg, opts), {}
    raise KeyError(kind)


def gres(name, ok, detail='', probe=None, expected=None):
    """A ground obligation.  probe: dotted attribute path re-evaluated natively in the replay."""
    r = Result(name, 'proved' if ok else 'refuted', 0.0, 'evaluation', detail=detail, kind='ground')
    if not ok and probe:
        from pyvc import replay
        job = {'target': 'pyvc.probe.attr', 'args': [probe]}
        obs = replay.native_calls([job])[0]
        r.replay = {'confirmed': True, 'args': {'attribute': probe}, 'expected': expected or detail,
                    'observed': obs, 'job': job}
    return r


ENC = 'pamqp.encode.'
C11_CONE = [ENC + n for n in ('octet', 'short_int', 'short_uint', 'long_int', 'long_uint', 'long_long_int',
                               'table_integer', '_deprecated_table_integer', 'support_deprecated_rabbitmq')]


@ground('C11.switch-default')
def _c11_default(reg, opts):
    from pamqp import encode
    import inspect
    sig = inspect.signature(encode.support_deprecated_rabbitmq)
    d = sig.parameters['enabled'].default
    return [gres('pamqp.encode.support_deprecated_rabbitmq#default-argument-is-True', d is True, 'default=%r' % (d,)),
            gres('pamqp.encode.DEPRECATED_RABBITMQ_SUPPORT#initially-False', encode.DEPRECATED_RABBITMQ_SUPPORT is False)]


FRM = 'pamqp.frame.'
FRAME_ENV = [FRM + n for n in ('frame_parts', '_marshal', '_marshal_content_body_frame', '_unmarshal_body_frame',
                               '_unmarshal_protocol_header_frame', 'marshal')] + \
    ['pamqp.header.ProtocolHeader.' + n for n in ('__init__', 'marshal', 'unmarshal')] + \
    ['pamqp.body.ContentBody.' + n for n in ('__init__', '__len__', 'marshal', 'unmarshal')] + \
    ['pamqp.heartbeat.Heartbeat.marshal']
L = 'contracts.lemmas.'
# clauses of frame.unmarshal's total contract, by the property that states them
UNMARSHAL_RETURNS = {'protocol-header', 'heartbeat', 'body', 'method', 'content-header'}
UNMARSHAL_INCOMPLETE = {'protocol-header-truncated', 'shorter-than-a-frame-header', 'heartbeat-incomplete-or-bad-end',
                        'incomplete'}
UNMARSHAL_RAISES = UNMARSHAL_INCOMPLETE | {'zero-size', 'bad-frame-end', 'unknown-type'}

@ground('C18.heartbeat-constant')
def _c18_hb(reg, opts):
    from pamqp import heartbeat
    from spec import wire
    return [gres('heartbeat.Heartbeat.value#fixed-8-octet-frame', heartbeat.Heartbeat.value == wire.HEARTBEAT_FRAME,
                 'value=%r' % (heartbeat.Heartbeat.value,), probe='pamqp.heartbeat.Heartbeat.value')]


def _names():
    from contracts import class_c, mapping_c, method_frame_c
    return class_c, mapping_c, method_frame_c


DEC = 'pamqp.decode.'
DEC_PRIM = [DEC + n for n in ('bit', 'boolean', 'octet', 'short_short_int', 'short_short_uint', 'short_int', 'short_uint',
                              'long_int', 'long_uint', 'long_long_int', 'floating_point', 'double', 'byte_array',
                              'long_str', 'short_str', 'void')]
ENC_PRIM = [ENC + n for n in ('boolean', 'byte_array', 'double', 'floating_point', '_string', 'short_string', 'long_string',
                              'octet', 'short_int', 'short_uint', 'long_int', 'long_uint', 'long_long_int')]


def _c19():
    class_c, mapping_c, mf = _names()
    return mapping_c.names()


def _c13():
    class_c, mapping_c, mf = _names()
    from spec import tables
    val = set(tables.VALIDATING)
    out = class_c.names('validate') + class_c.names('init')
    out += [('pamqp.base.Frame.marshal[%s]' % n, {'invalid-arguments', 'encoded'}) for n in tables.VALIDATING]
    out += [('pamqp.base.Frame.unmarshal[%s]' % n, {'grammar-valid-arguments'}) for n in tables.VALIDATING]
    out += [BPN + 'validate', 'pamqp.commands.Basic.Properties.__init__', (BPN + 'unmarshal', {'grammar-valid-properties'})]
    return out


def _c04():
    class_c, mapping_c, mf = _names()
    return (ENC_PRIM + ENC_TABLE[:6] + [FRM + '_marshal', FRM + 'marshal', FRM + '_marshal_content_body_frame',
                        'pamqp.header.ProtocolHeader.marshal', 'pamqp.heartbeat.Heartbeat.marshal',
                        'pamqp.body.ContentBody.marshal']
            + class_c.names('marshal') + mf.names('marshal_method_frame') + mf.names('frame_marshal')
            + [BPN + 'marshal', CHN + 'marshal', FRM + '_marshal_content_header_frame', FRM + 'marshal[ContentHeader]'])


def _c01():
    class_c, mapping_c, mf = _names()
    return (ENC_PRIM + DEC_PRIM + [FRM + '_marshal', FRM + 'frame_parts']
            + class_c.names('marshal') + [(n, {'grammar-valid-arguments'}) for n in class_c.names('unmarshal')]
            + mf.names('frame_marshal') + mf.names('marshal_method_frame')
            + [(n, {'method'}) for n in mf.names('unmarshal_method_frame')[:-1]] + mf.names('unmarshal_g'))


def _c05():
    class_c, mapping_c, mf = _names()
    return (DEC_PRIM + DEC_TABLE + [FRM + 'frame_parts', (FRM + 'unmarshal', UNMARSHAL_RETURNS)]
            + [(n, {'grammar-valid-arguments'}) for n in class_c.names('unmarshal')]
            + [(n, {'method'}) for n in mf.names('unmarshal_method_frame')[:-1]] + mf.names('unmarshal_g')
            + [(BPN + 'unmarshal', {'grammar-valid-properties'}), (CHN + 'unmarshal', {'grammar-valid-header'}),
               (CHN + '_get_flags', {'one-flag-word', 'two-flag-words'}), (FRM + '_unmarshal_header_frame', {'content-header'}),
               FRM + 'unmarshal(g)[ContentHeader]'])


def _c09():
    class_c, mapping_c, mf = _names()
    return (DEC_PRIM + DEC_TABLE + [FRM + 'frame_parts', FRM + '_unmarshal_protocol_header_frame', FRM + '_unmarshal_body_frame',
                        (FRM + 'unmarshal', UNMARSHAL_RAISES | {'method', 'content-header', '*raises*'})]
            + [(n, {'anything-else', '*raises*'}) for n in class_c.names('unmarshal')]
            + mf.names('unmarshal_method_frame')
            + [(BPN + 'unmarshal', {'anything-else', '*raises*'}), (CHN + 'unmarshal', {'anything-else', '*raises*'}),
               (CHN + '_get_flags', {'three-or-more-flag-words', 'flag-words-cut-short'}), FRM + '_unmarshal_header_frame',
               CHN + '__init__', 'pamqp.commands.Basic.Properties.__init__'])


BPN = 'pamqp.base.BasicProperties.'
CHN = 'pamqp.header.ContentHeader.'
HEADER_CONE = [BPN + 'marshal', BPN + 'unmarshal', BPN + 'validate', 'pamqp.commands.Basic.Properties.__init__',
               CHN + '__init__', CHN + 'marshal', CHN + '_get_flags', CHN + 'unmarshal',
               FRM + '_marshal_content_header_frame', FRM + 'marshal[ContentHeader]', FRM + '_unmarshal_header_frame',
               FRM + 'unmarshal(g)[ContentHeader]']


def _c02():
    return (HEADER_CONE + [ENC + n for n in ('short_string', '_string', 'octet')]
            + [DEC + n for n in ('short_str', 'octet', 'short_uint')]
            + [FRM + '_marshal', (FRM + 'unmarshal', {'content-header'})])


def _c08():
    class_c, mapping_c, mf = _names()
    return (DEC_PRIM + DEC_TABLE + [CHN + '_get_flags', BPN + 'unmarshal', CHN + 'unmarshal', FRM + '_unmarshal_header_frame',
                        FRM + 'frame_parts', FRM + 'unmarshal', FRM + 'unmarshal(env)']
            + [(n, {'anything-else', 'grammar-valid-arguments'}) for n in class_c.names('unmarshal')]
            + mf.names('unmarshal_method_frame'))


ENC_TABLE = [ENC + n for n in ('field_array', 'field_table', 'encode_table_value', 'table_integer',
                               '_deprecated_table_integer', 'timestamp', 'decimal')]
DEC_TABLE = [DEC + n for n in ('embedded_value', 'field_table', 'field_table(t)', 'field_array', 'field_array(t)', 'decimal',
                               'timestamp')]


TABLE_CLAUSES = {'no-table', 'empty-table', 'table', 'table-with-unencodable-content'}


def _c03():
    return (ENC_PRIM + DEC_PRIM + [x if x != ENC + 'field_table' else (x, TABLE_CLAUSES) for x in ENC_TABLE]
            + [x for x in DEC_TABLE if not x.endswith('(t)')])


def _c10():
    class_c, mapping_c, mf = _names()
    return (ENC_PRIM + ENC_TABLE + [ENC + 'bit', FRM + '_marshal']
            + [(n, {'invalid-arguments', 'refused', 'encoded'}) for n in class_c.names('marshal')]
            + [(BPN + 'marshal', {'refused', 'encoded'}), (CHN + 'marshal', {'refused', 'encoded'})])


def _c12():
    class_c, mapping_c, mf = _names()
    return ([ENC + 'field_array', (ENC + 'field_table', TABLE_CLAUSES), ENC + 'encode_table_value'] + ENC_PRIM
            + class_c.names('marshal') + mf.names('frame_marshal')
            + [BPN + 'marshal', CHN + 'marshal', FRM + 'marshal[ContentHeader]', FRM + 'marshal', FRM + '_marshal',
               'pamqp.body.ContentBody.marshal', 'pamqp.header.ProtocolHeader.marshal', 'pamqp.heartbeat.Heartbeat.marshal'])


def _c16():
    class_c, mapping_c, mf = _names()
    return (class_c.names('init') + ['pamqp.commands.Basic.Properties.__init__', CHN + '__init__',
                                     'pamqp.body.ContentBody.__init__', 'pamqp.header.ProtocolHeader.__init__']
            + [DEC + 'embedded_value', DEC + 'field_table', DEC + 'field_array']
            + [(n, {'grammar-valid-arguments'}) for n in class_c.names('unmarshal')]
            + [(n, {'method'}) for n in mf.names('unmarshal_method_frame')[:-1]]
            + [(FRM + '_unmarshal_header_frame', {'content-header'}), FRM + '_unmarshal_body_frame',
               FRM + '_unmarshal_protocol_header_frame', (FRM + 'unmarshal', UNMARSHAL_RETURNS)]
            + mf.names('unmarshal_g') + [FRM + 'unmarshal(g)[ContentHeader]']
            + [ENC + 'field_array', (ENC + 'field_table', TABLE_CLAUSES), ENC + 'encode_table_value',
               ENC + 'table_integer', ENC + 'support_deprecated_rabbitmq']
            + class_c.names('marshal') + [BPN + 'marshal', CHN + 'marshal', BPN + 'unmarshal', CHN + 'unmarshal'])


PROPS = {
    'C16': PropSpec('C16', contracts=_c16(), lemmas=[L + 'c11_toggle'], floor=3000,
                    assumptions=['history: every codec contract is a function of its arguments and the legacy switch '
                                 '(reads), writes nothing that existed before the call (modifies-nothing, no global '
                                 'writes except the switch setter) and returns freshly allocated containers / objects; '
                                 'by induction over a sequential history each call then behaves as in a fresh interpreter',
                                 'THREADS: no interleaving is explored. The family is silent on concurrency; the thread clause '
                                 'is covered only by the sufficient condition above plus the assumption that threads share no '
                                 'argument objects (CPython threads interact only through shared mutable objects)']),
    'C15': PropSpec('C15', contracts=[ENC + 'timestamp', DEC + 'timestamp',
                                      # every route by which a timestamp reaches / leaves those two: their contracts state the
                                      # zone-independent octets / instant, so a conversion added on the way fails them
                                      ENC + 'encode_table_value', DEC + 'embedded_value', (BPN + 'marshal', {'encoded'}),
                                      (BPN + 'unmarshal', {'grammar-valid-properties'}),
                                      'pamqp.commands.Basic.Properties.__init__'], floor=30,
                    assumptions=['A5: classification of library functions: calendar.timegm, aware datetime.timestamp(), '
                                 'replace(tzinfo=utc), fromtimestamp(tz=utc) are host-zone independent; time.mktime, naive '
                                 'timestamp(), fromtimestamp() without tz, astimezone() depend on LOCAL_OFFSET, which is an '
                                 'uninterpreted function of the instant (so no proof can cancel it)',
                                 'A3: float timestamps are exact to the whole second'],
                    extra=lambda tier, rng: __import__('props.bounded', fromlist=['x']).time_zones('C15', tier, rng)),
    'C03': PropSpec('C03', contracts=_c03(), lemmas=[L + 'c03_roundtrip'], ground=['spec.container-round-trip'], floor=1000,
                    assumptions=['containers: the composition dec(enc(d)) == norm_value(d) of the verified encoder and decoder '
                                 'contracts is a specification-level structural induction: its base and step obligations are discharged '
                                 'by the ground unit spec.container-round-trip, the induction principle itself (A11) is the '
                                 'meta-rule left to the reader; scalars are proved outright',
                                 'encode.decimal / decode.decimal: verified under the Decimal library model of A5 (as_tuple, '
                                 'scaleb-style arithmetic), itself only tested against CPython by engine.library-models',
                                 'float packing, datetime arithmetic: assumed library contracts A3/A5',
                                 'nesting depth: unbounded under A8 (recursive calls use the contract)'],
                    extra=lambda tier, rng: __import__('props.bounded', fromlist=['x']).field_values('C03', tier, rng)),
    'C10': PropSpec('C10', contracts=_c10(), floor=2500,
                    assumptions=['every encoder contract lists, for every Python type class, either the exact bytes (whose decoding '
                                 'is the normalised input by the lemmas of C01-C03) or the exception class; '
                                 'values of foreign types: A8']),
    'C12': PropSpec('C12', contracts=_c12(), floor=2500,
                    assumptions=['determinism: every encoder clause is `returns <function of the argument values>`; '
                                 'order independence: the specification encodes dict_sorted(d), which by A4 depends on the '
                                 'contents only; non-mutation: a write to a caller-owned object fails the modifies-nothing obligation'],
                    extra=lambda tier, rng: __import__('props.bounded', fromlist=['x']).table_order('C12', tier, rng)),
    'C02': PropSpec('C02', contracts=_c02(), lemmas=[L + 'c02_roundtrip', L + 'c02_reencode'],
                    ground=['spec.container-round-trip'], floor=2000,
                    assumptions=['header tables: dec_table(enc_table(d)) == norm_value(d) and enc_table(norm_value(d)) == enc_table(d) (decided in the C03 cone)',
                                 'timestamps: dt_seconds / dt_of_seconds are the whole-second UTC reading (encode.timestamp and decode.timestamp enter through assumed contracts; C15)',
                                 'content headers with three or more flag words are outside the grammar clause (no properties are defined there)']),
    'C08': PropSpec('C08', contracts=_c08(), floor=2000,
                    assumptions=['I6: a decoding step is one loop iteration or one call of a decode/unmarshal function; '
                                 'wall-clock time and resident memory are not objects a contract can mention',
                                 'loops over the concrete argument / property lists terminate by construction (unrolled or cut)'],
                    extra=lambda tier, rng: __import__('props.bounded', fromlist=['x']).decode_budget('C08', tier, rng)),
    'C19': PropSpec('C19', contracts=_c19(), floor=1000,
                    extra=lambda tier, rng: __import__('props.bounded', fromlist=['x']).mapping_protocol('C19', tier, rng)),
    'C13': PropSpec('C13', contracts=_c13(), ground=['C13.name-character-class'], floor=800,
                    assumptions=['I5: typed domains; None in a validated field is outside the domain (validation skips None by design)']),
    'C04': PropSpec('C04', contracts=_c04(), lemmas=[], ground=['C18.heartbeat-constant'], floor=2000),
    'C01': PropSpec('C01', contracts=_c01(), lemmas=_names()[2].names('roundtrip'), ground=['spec.container-round-trip'],
                    floor=3000),
    'C05': PropSpec('C05', contracts=_c05(), floor=1500),
    'C09': PropSpec('C09', contracts=_c09(), floor=1000),
    'C06': PropSpec('C06', contracts=FRAME_ENV + [CHN + '__init__', (FRM + '_unmarshal_header_frame', {'content-header'}), (FRM + 'unmarshal', UNMARSHAL_RETURNS | {'bad-frame-end', 'heartbeat-incomplete-or-bad-end'}), FRM + 'unmarshal(env)'], lemmas=[L + 'c06_trailing_bytes'], floor=200,
                    assumptions=['method and content-header payload decoders enter through their total contracts '
                                 '(any frame object of the right kind, or UnmarshalingException)']),
    'C07': PropSpec('C07', contracts=FRAME_ENV + [(FRM + 'unmarshal', UNMARSHAL_INCOMPLETE), FRM + 'unmarshal(env)'], lemmas=[L + 'c07_prefix'], floor=200),
    'C18': PropSpec('C18', contracts=FRAME_ENV + [(FRM + 'unmarshal', {'protocol-header', 'heartbeat', 'body'})],
                    lemmas=[L + 'c18_body_roundtrip', L + 'c18_body_len', L + 'c18_heartbeat', L + 'c18_protocol_header'],
                    ground=['C18.heartbeat-constant'], floor=200),
    'C20': PropSpec('C20', contracts=FRAME_ENV + [(FRM + 'unmarshal', {'body', 'method', 'content-header', 'heartbeat'})], lemmas=[L + 'c20_peek_then_read', L + 'c20_peek_low_level'], floor=200),
    'C14': PropSpec('C14', ground=['C14.catalogue', 'C14.properties', 'env.import-state'], floor=1200, exhaustive=True,
                    assumptions=['the specification table spec/tables.py is a hand transcription (trusted artefact)',
                                 'tools/codegen.py is not executed (needs network); the property is about the shipped module']),
    'C17': PropSpec('C17', ground=['C17.reply-codes', 'C17.constants', 'C17.table-survives-use', 'env.import-state'], floor=100, exhaustive=True,
                    assumptions=['the reply-code table in spec/tables.py is a hand transcription (trusted artefact)']),
    'C11': PropSpec('C11', contracts=C11_CONE + [ENC + 'encode_table_value', ENC + 'field_table', ENC + 'field_array'],
                    lemmas=['contracts.lemmas.c11_toggle', 'contracts.lemmas.c11_toggle_default'],
                    ground=['C11.switch-default', 'env.import-state'], floor=150,
                    assumptions=['the legacy switch holds a bool (the setter stores its argument unchecked)']),
}


from props import ground as _ground_units  # noqa: E402,F401  (registers the ground tables)
from props import selfcheck as _selfcheck  # noqa: E402,F401
from props import speclemmas as _speclemmas  # noqa: E402,F401
from props import ground2 as _ground2  # noqa: E402,F401
