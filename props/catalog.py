"""props.catalog -- which contracts, lemmas and ground tables decide which property."""
from pyvc.contract import Registry, Result


class PropSpec:
    def __init__(self, pid, contracts=(), lemmas=(), ground=(), floor=1, exhaustive=False,
                 assumptions=(), extra=None):
        self.pid = pid
        self.contracts = list(contracts)
        self.lemmas = list(lemmas)
        self.ground = list(ground)
        self.floor = floor
        self.exhaustive = exhaustive
        self.assumptions = list(assumptions)
        self.extra = extra

    def units(self):
        return ([('contract', n) for n in self.contracts] + [('contract', n) for n in self.lemmas]
                + [('ground', n) for n in self.ground])


def build_registry():
    reg = Registry()
    from contracts import encode_c
    encode_c.register(reg)
    for c in encode_c.lemmas():
        reg.add(c)
    return reg


GROUND = {}


def ground(name):
    def deco(f):
        GROUND[name] = f
        return f
    return deco


def run_unit(kind, name, reg, opts):
    if kind == 'ground':
        return GROUND[name](reg, opts), {}
    raise KeyError(kind)


def gres(name, ok, detail='', replay=None):
    r = Result(name, 'proved' if ok else 'refuted', 0.0, 'evaluation', detail=detail, kind='ground')
    return r


ENC = 'pamqp.encode.'
C11_CONE = [ENC + n for n in ('octet', 'short_int', 'short_uint', 'long_int', 'long_uint', 'long_long_int',
                               'table_integer', '_deprecated_table_integer', 'support_deprecated_rabbitmq')]


@ground('C11.switch-default')
def _c11_default(reg, opts):
    from pamqp import encode
    import inspect
    sig = inspect.signature(encode.support_deprecated_rabbitmq)
    d = sig.parameters['enabled'].default
    return [gres('pamqp.encode.support_deprecated_rabbitmq#default-argument-is-True', d is True, 'default=%r' % (d,)),
            gres('pamqp.encode.DEPRECATED_RABBITMQ_SUPPORT#initially-False', encode.DEPRECATED_RABBITMQ_SUPPORT is False)]


PROPS = {
    'C11': PropSpec('C11', contracts=C11_CONE,
                    lemmas=['contracts.lemmas.c11_toggle', 'contracts.lemmas.c11_toggle_default'],
                    ground=['C11.switch-default'], floor=150,
                    assumptions=['the legacy switch holds a bool (the setter stores its argument unchecked)']),
}
