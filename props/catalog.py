"""props.catalog -- which contracts, lemmas and ground tables decide which property."""
from pyvc.contract import Registry, Result


class PropSpec:
    def __init__(self, pid, contracts=(), lemmas=(), ground=(), floor=1, exhaustive=False,
                 assumptions=(), extra=None):
        self.pid = pid
        self.contracts = list(contracts)
        self.lemmas = list(lemmas)
        self.ground = list(ground)
        self.floor = floor
        self.exhaustive = exhaustive
        self.assumptions = list(assumptions)
        self.extra = extra

    def units(self):
        return ([('contract', n) for n in self.contracts] + [('contract', n) for n in self.lemmas]
                + [('ground', n) for n in self.ground])


def build_registry():
    reg = Registry()
    from contracts import encode_c
    encode_c.register(reg)
    for c in encode_c.lemmas():
        reg.add(c)
    return reg


GROUND = {}


def ground(name):
    def deco(f):
        GROUND[name] = f
        return f
    return deco


def run_unit(kind, name, reg, opts):
    if kind == 'ground':
        return GROUND[name](reg, opts), {}
    raise KeyError(kind)


def gres(name, ok, detail='', probe=None, expected=None):
    """A ground obligation.  probe: dotted attribute path re-evaluated natively in the replay."""
    r = Result(name, 'proved' if ok else 'refuted', 0.0, 'evaluation', detail=detail, kind='ground')
    if not ok and probe:
        from pyvc import replay
        job = {'target': 'pyvc.probe.attr', 'args': [probe]}
        obs = replay.native_calls([job])[0]
        r.replay = {'confirmed': True, 'args': {'attribute': probe}, 'expected': expected or detail,
                    'observed': obs, 'job': job}
    return r


ENC = 'pamqp.encode.'
C11_CONE = [ENC + n for n in ('octet', 'short_int', 'short_uint', 'long_int', 'long_uint', 'long_long_int',
                               'table_integer', '_deprecated_table_integer', 'support_deprecated_rabbitmq')]


@ground('C11.switch-default')
def _c11_default(reg, opts):
    from pamqp import encode
    import inspect
    sig = inspect.signature(encode.support_deprecated_rabbitmq)
    d = sig.parameters['enabled'].default
    return [gres('pamqp.encode.support_deprecated_rabbitmq#default-argument-is-True', d is True, 'default=%r' % (d,)),
            gres('pamqp.encode.DEPRECATED_RABBITMQ_SUPPORT#initially-False', encode.DEPRECATED_RABBITMQ_SUPPORT is False)]


PROPS = {
    'C14': PropSpec('C14', ground=['C14.catalogue', 'C14.properties'], floor=1200, exhaustive=True,
                    assumptions=['the specification table spec/tables.py is a hand transcription (trusted artefact)',
                                 'tools/codegen.py is not executed (needs network); the property is about the shipped module']),
    'C17': PropSpec('C17', ground=['C17.reply-codes', 'C17.constants'], floor=100, exhaustive=True,
                    assumptions=['the reply-code table in spec/tables.py is a hand transcription (trusted artefact)']),
    'C11': PropSpec('C11', contracts=C11_CONE,
                    lemmas=['contracts.lemmas.c11_toggle', 'contracts.lemmas.c11_toggle_default'],
                    ground=['C11.switch-default'], floor=150,
                    assumptions=['the legacy switch holds a bool (the setter stores its argument unchecked)']),
}


from props import ground as _ground_units  # noqa: E402,F401  (registers the ground tables)
