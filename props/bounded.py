"""Bounded stand-ins that exercise whole pipelines on the real code against the
concrete reference codec (spec/ref.py).  Labelled bounded in the evidence and
never counted as discharged obligations."""
import json
import os

from pyvc import replay, values
from spec import ref

VERIF = os.path.dirname(os.path.dirname(os.path.abspath(__file__)))


def _violation(prop, what, job, expected, observed):
    import hashlib
    sig = json.dumps(job, sort_keys=True, default=repr)
    fname = os.path.join('replays', prop, 'pipeline-%s.json' % hashlib.sha1(sig.encode()).hexdigest()[:16])
    os.makedirs(os.path.join(VERIF, 'replays', prop), exist_ok=True)
    with open(os.path.join(VERIF, fname), 'w') as fh:
        json.dump({'property': prop, 'obligation': what + ' (bounded pipeline check against the reference codec)',
                   'unit': what, 'replay': {'confirmed': True, 'args': job.get('args'), 'expected': expected,
                                            'observed': observed, 'job': job},
                   'input_signature': sig, 'rerun': './check replay %s' % fname}, fh, indent=1, default=repr)
    return (fname, True, {'name': what, 'detail': 'real code disagrees with the reference codec'})


def field_values(prop, tier, rng):
    """C03/C10: real round trip of generated nested values == reference normalisation; bytes == reference bytes."""
    n = 400 if tier == 'thorough' else 120
    vals = [ref.gen_value(rng, 3) for _ in range(n)] + list(ref.LEAVES)
    jobs, metas = [], []
    for legacy in (False, True):
        for v in vals:
            try:
                exp_bytes = ref.enc_value(v, legacy)
                exp_norm = ref.norm(v)
            except ref.Refused:
                exp_bytes = None
            jobs.append({'target': 'pyvc.probe.field_roundtrip', 'args': [values.encode(v), legacy]})
            metas.append((v, legacy, exp_bytes, exp_norm if exp_bytes is not None else None))
    outs = replay.native_calls(jobs, timeout=300)
    viol, distinct = [], set()
    for (v, legacy, exp_bytes, exp_norm), obs, job in zip(metas, outs, jobs):
        distinct.add(repr(v)[:80])
        if exp_bytes is None:
            if obs['outcome'] == 'return':
                viol.append(_violation(prop, 'encode.encode_table_value', job, 'refused (raises)', obs))
            continue
        if obs['outcome'] != 'return':
            viol.append(_violation(prop, 'encode.encode_table_value/decode.embedded_value', job,
                                   'encodes to %r and decodes back' % (exp_bytes,), obs))
            continue
        got = values.decode(obs['value'])
        if got.get('encoded') != exp_bytes or got.get('consumed') != len(exp_bytes) or not ref.same(got.get('decoded'), exp_norm):
            viol.append(_violation(prop, 'field value round trip', job,
                                   'bytes %r, consumed %d, decoded %r' % (exp_bytes, len(exp_bytes), exp_norm), obs))
    return {'violations': viol[:10], 'coverage': {'bounded_pipeline_checks': [
        {'what': 'nested field values: real encode == reference bytes, real decode(encode(v)) == Norm(v) with the same types',
         'inputs': len(jobs), 'distinct_values': len(distinct), 'max_depth': 3, 'failures': len(viol), 'bounded': True}]}}


def wire_tables(prop, tier, rng):
    """C05/C08/C09: grammar-generated and fault-injected table octets: the real decoder agrees with the
    reference decoder on the valid ones and terminates with one of the decode errors on the others."""
    n = 120 if tier == 'thorough' else 40
    jobs, metas = [], []
    for _ in range(n):
        t = ref.gen_table(rng, 3)
        try:
            good = ref.enc_table(t)
        except ref.Refused:
            continue
        for data in [good] + ref.faulty(rng, good)[:25 if tier == 'thorough' else 12]:
            jobs.append({'target': 'pyvc.probe.decode_table', 'args': [values.encode(data)], 'wall_s': 3, 'step_budget': 400000})
            metas.append(data)
    outs = replay.native_calls(jobs, timeout=600)
    viol = []
    for data, obs, job in zip(metas, outs, jobs):
        try:
            exp, consumed = ref.dec_table(data)
            valid = True
        except (ref.Malformed, IndexError, OverflowError, ValueError):
            valid = False
        if obs['outcome'] == 'budget':
            viol.append(_violation(prop, 'decode.field_table', job, 'terminates', obs))
        elif valid:
            ok = obs['outcome'] == 'return'
            if ok:
                got = values.decode(obs['value'])
                ok = got.get('consumed') == consumed and ref.same(got.get('decoded'), exp)
            if not ok:
                viol.append(_violation(prop, 'decode.field_table', job, 'decodes to %r consuming %d' % (exp, consumed), obs))
        elif obs['outcome'] == 'raise' and not ({'struct.error', 'builtins.ValueError', 'builtins.OverflowError'} & set(obs.get('mro', []))):
            viol.append(_violation(prop, 'decode.field_table', job, 'struct.error / ValueError / OverflowError or a value', obs))
    return {'violations': viol[:10], 'coverage': {'bounded_pipeline_checks': [
        {'what': 'grammar-generated and fault-injected field tables through the real decoder vs the reference decoder',
         'inputs': len(jobs), 'failures': len(viol), 'bounded': True}]}}


def table_order(prop, tier, rng):
    """C12: equal contents, different insertion order -> identical bytes; encoding twice -> identical; input unchanged."""
    n = 200 if tier == 'thorough' else 60
    jobs = []
    for i in range(n):
        t = ref.gen_table(rng, 2)
        if i % 4 == 0:
            # names longer than 128 characters that coincide after truncation (emitted in sorted order, whatever the insertion order)
            t['n' * 128 + 'a'] = i
            t['n' * 128 + 'b'] = -i
            if i % 8 == 0:
                t = dict(reversed(list(t.items())))
        try:
            ref.enc_table(t)
        except ref.Refused:
            continue
        jobs.append({'target': 'pyvc.probe.table_encodings', 'args': [values.encode(t)]})
    # names that collide after truncation to 128 characters are outside "equal contents" only if they differ: keep one
    outs = replay.native_calls(jobs, timeout=300)
    viol = []
    for obs, job in zip(outs, jobs):
        if obs['outcome'] != 'return':
            continue
        got = values.decode(obs['value'])
        if not (got['encoded'] == got['again'] == got['reversed'] == got['rotated'] and got['input_unchanged']):
            viol.append(_violation(prop, 'encode.field_table', job, 'same bytes for every insertion order, input unchanged', obs))
    return {'violations': viol[:10], 'coverage': {'bounded_pipeline_checks': [
        {'what': 'tables encoded twice and in reversed / rotated insertion order', 'inputs': len(jobs),
         'failures': len(viol), 'bounded': True}]}}


def time_zones(prop, tier, rng):
    """C15: the same timestamp calls in child processes under different TZ settings give identical results."""
    import datetime
    import subprocess
    import sys
    zones = ['UTC', 'America/New_York', 'Asia/Kolkata', 'Pacific/Kiritimati', 'Australia/Lord_Howe', 'Europe/Berlin',
             'America/St_Johns']
    if tier != 'thorough':
        zones = zones[:4]
    prog = r'''
import sys, time, json, datetime, calendar
sys.path.insert(0, %r)
time.tzset()
from pamqp import encode, decode
out = []
naive = [datetime.datetime(2021, 3, 28, 2, 30), datetime.datetime(2021, 11, 7, 1, 30), datetime.datetime(1970, 1, 1),
         datetime.datetime(2038, 1, 19, 3, 14, 8), datetime.datetime(2106, 2, 7, 6, 28, 15), datetime.datetime(2000, 6, 15, 12, 0, 0, 999999)]
aware = [d.replace(tzinfo=datetime.timezone(datetime.timedelta(hours=h, minutes=m))) for d in naive[:4] for h, m in ((0, 0), (5, 30), (-8, 0), (14, 0))]
structs = [time.gmtime(s) for s in (0, 1616898600, 1636263000, 2**31 - 1, 4294967295)] + \
          [time.struct_time((2021, 3, 28, 2, 30, 0, 6, 87, isdst)) for isdst in (-1, 0, 1)]
for v in naive + aware + structs:
    try:
        out.append(encode.timestamp(v).hex())
    except Exception as exc:
        out.append(type(exc).__name__)
for s in (0, 1, 1616898600, 1636263000, 2**31, 4294967295, 4294967296, 1616898600123):
    c, d = decode.timestamp(s.to_bytes(8, 'big'))
    out.append([c, d.isoformat(), str(d.utcoffset()), d.tzinfo is datetime.timezone.utc])
print(json.dumps(out))
''' % replay.REPO
    results = {}
    for z in zones:
        env = dict(os.environ, TZ=z)
        p = subprocess.run([replay.VENV_PY, '-W', 'ignore', '-c', prog], capture_output=True, text=True, env=env, timeout=60)
        results[z] = p.stdout.strip() or ('ERROR ' + p.stderr[-300:])
    base = results[zones[0]]
    viol = []
    for z in zones[1:]:
        if results[z] != base:
            job = {'target': 'time-zone comparison', 'args': [z]}
            viol.append(_violation(prop, 'encode.timestamp / decode.timestamp under TZ=%s' % z, job,
                                   'identical to TZ=%s' % zones[0], {'this': results[z][:400], 'reference': base[:400]}))
    n = len(json.loads(base)) if base.startswith('[') else 0
    return {'violations': viol, 'coverage': {'bounded_pipeline_checks': [
        {'what': 'timestamp codecs in child processes under TZ settings %s' % zones, 'inputs': n * len(zones),
         'failures': len(viol), 'bounded': True}]}}


def mapping_protocol(prop, tier, rng):
    """C19: all mapping views of all 65 classes, computed twice in ONE process (state shared between classes or
    calls would show), against the ordered names of the specification table."""
    from spec import tables
    job = {'target': 'pyvc.probe.mapping_views', 'args': []}
    obs = replay.native_calls([job])[0]
    viol = []
    want = {m.name: ([f.name for f in m.fields], [f.wire for f in m.fields]) for m in tables.METHODS}
    want['Basic.Properties'] = ([n for n, _, _ in tables.PROPERTIES], [w for _, _, w in tables.PROPERTIES])
    rows = values.decode(obs['value']) if obs['outcome'] == 'return' else []
    if obs['outcome'] != 'return':
        viol.append(_violation(prop, 'mapping views', job, 'returns', obs))
    for r in rows:
        names, types = want[r['class']]
        ok = (r['iter'] == names and r['len'] == len(names) and r['attributes'] == names and r['dict_keys'] == names
              and r['contains'] == [True] * len(names) + [False] and r['getitem_agrees'] and r['types'] == types)
        if not ok:
            viol.append(_violation(prop, 'mapping views of %s' % r['class'], job, 'names %r types %r' % (names, types), r))
            break
    return {'violations': viol[:3], 'coverage': {'bounded_pipeline_checks': [
        {'what': 'mapping views of all 65 classes, two rounds in one process', 'inputs': len(rows), 'failures': len(viol),
         'bounded': True}]}}


def decode_budget(prop, tier, rng):
    """C08 (bounded stand-in for the clauses a contract cannot state): decoding steps and peak allocation of
    frame.unmarshal on valid frames and on frames whose embedded length fields are rewritten, measured natively.
    Bounds checked: trace events inside pamqp's files <= 60 * len + 3000, peak allocation <= 64 * len + 64 KiB."""
    import struct
    n = 60 if tier == 'thorough' else 20
    frames = []
    for _ in range(n):
        t = ref.gen_table(rng, 2)
        try:
            table = ref.enc_table(t)
        except ref.Refused:
            continue
        # Queue.Declare (50,10): ticket, queue shortstr, bits, arguments table
        payload = struct.pack('>I', 0x0032000A) + b'\x00\x00' + b'\x01q' + b'\x00' + table
        good = b'\x01\x00\x01' + struct.pack('>I', len(payload)) + payload + b'\xce'
        frames.append(good)
        body = bytearray(good)
        # rewrite each embedded 4-octet length (table, strings, arrays, byte arrays) to large values
        for i in range(7 + 4 + 5, len(body) - 5):
            if body[i:i + 1] in (b'S', b'x', b'A', b'F'):
                for big in (0x08000000, 0xFFFFFFFB, 0x7FFFFFFF):
                    m = bytearray(good)
                    m[i + 1:i + 5] = struct.pack('>I', big)
                    frames.append(bytes(m))
        m = bytearray(good)
        m[7 + 4 + 5:7 + 4 + 9] = struct.pack('>I', 0x08000000)      # the arguments table itself
        frames.append(bytes(m))
    # content header with a headers table
    frames = frames[:400]
    jobs = [{'target': 'pyvc.probe.unmarshal_measured', 'args': [values.encode(f)], 'wall_s': 5, 'step_budget': 3000000}
            for f in frames]
    outs = replay.native_calls(jobs, timeout=900)
    viol = []
    worst = (0, 0)
    for f, obs, job in zip(frames, outs, jobs):
        if obs['outcome'] == 'budget':
            viol.append(_violation(prop, 'frame.unmarshal', job, 'terminates within the step budget', obs))
            continue
        if obs['outcome'] != 'return':
            continue
        got = values.decode(obs['value'])
        steps = got['events']
        worst = (max(worst[0], steps / max(1, len(f))), max(worst[1], got['peak'] / max(1, len(f))))
        if steps > 60 * len(f) + 3000:
            viol.append(_violation(prop, 'frame.unmarshal', job, 'at most 60*len+3000 trace events inside pamqp', obs))
        elif got['peak'] > 64 * len(f) + 65536:
            viol.append(_violation(prop, 'frame.unmarshal', job, 'peak allocation at most 64*len + 64 KiB', obs))
    return {'violations': viol[:5], 'coverage': {'bounded_pipeline_checks': [
        {'what': 'decoding steps and peak allocation of frame.unmarshal on valid frames and on frames with rewritten embedded '
                 'length fields (tracemalloc, sys.settrace): the time / memory clauses of C08 are only measured, not proved',
         'inputs': len(jobs), 'worst_steps_per_octet': round(worst[0], 1), 'worst_peak_octets_per_octet': round(worst[1], 1),
         'failures': len(viol), 'bounded': True}]}}
