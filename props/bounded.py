"""Bounded stand-ins that exercise whole pipelines on the real code against the
concrete reference codec (spec/ref.py).  Labelled bounded in the evidence and
never counted as discharged obligations."""
import datetime
import decimal
import json
import os

from pyvc import replay, values
from spec import ref

VERIF = os.path.dirname(os.path.dirname(os.path.abspath(__file__)))


def _violation(prop, what, job, expected, observed, against='the reference codec'):
    import hashlib
    sig = json.dumps(job, sort_keys=True, default=repr)
    fname = os.path.join('replays', prop, 'pipeline-%s.json' % hashlib.sha1(sig.encode()).hexdigest()[:16])
    os.makedirs(os.path.join(VERIF, 'replays', prop), exist_ok=True)
    with open(os.path.join(VERIF, fname), 'w') as fh:
        json.dump({'property': prop, 'obligation': what + ' (bounded pipeline check against %s)' % against,
                   'unit': what, 'replay': {'confirmed': True, 'args': job.get('args'), 'expected': expected,
                                            'observed': observed, 'job': job},
                   'input_signature': sig, 'rerun': './check replay %s' % fname}, fh, indent=1, default=repr)
    return (fname, True, {'name': what, 'detail': 'real code disagrees with %s' % against})


def field_values(prop, tier, rng):
    """C03/C10: real round trip of generated nested values == reference normalisation; bytes == reference bytes."""
    n = 400 if tier == 'thorough' else 120
    vals = [ref.gen_value(rng, 3) for _ in range(n)] + list(ref.LEAVES)
    jobs, metas = [], []
    for legacy in (False, True):
        for v in vals:
            try:
                exp_bytes = ref.enc_value(v, legacy)
                exp_norm = ref.norm(v)
            except ref.Refused:
                exp_bytes = None
            jobs.append({'target': 'pyvc.probe.field_roundtrip', 'args': [values.encode(v), legacy]})
            metas.append((v, legacy, exp_bytes, exp_norm if exp_bytes is not None else None))
    outs = replay.native_calls(jobs, timeout=300)
    viol, distinct = [], set()
    for (v, legacy, exp_bytes, exp_norm), obs, job in zip(metas, outs, jobs):
        distinct.add(repr(v)[:80])
        if exp_bytes is None:
            if obs['outcome'] == 'return':
                viol.append(_violation(prop, 'encode.encode_table_value', job, 'refused (raises)', obs))
            continue
        if obs['outcome'] != 'return':
            viol.append(_violation(prop, 'encode.encode_table_value/decode.embedded_value', job,
                                   'encodes to %r and decodes back' % (exp_bytes,), obs))
            continue
        got = values.decode(obs['value'])
        if got.get('encoded') != exp_bytes or got.get('consumed') != len(exp_bytes) or not ref.same(got.get('decoded'), exp_norm):
            viol.append(_violation(prop, 'field value round trip', job,
                                   'bytes %r, consumed %d, decoded %r' % (exp_bytes, len(exp_bytes), exp_norm), obs))
    return {'violations': viol[:10], 'coverage': {'bounded_pipeline_checks': [
        {'what': 'nested field values: real encode == reference bytes, real decode(encode(v)) == Norm(v) with the same types',
         'inputs': len(jobs), 'distinct_values': len(distinct), 'max_depth': 3, 'failures': len(viol), 'bounded': True}]}}


def wire_tables(prop, tier, rng):
    """C05/C08/C09: grammar-generated and fault-injected table octets: the real decoder agrees with the
    reference decoder on the valid ones and terminates with one of the decode errors on the others."""
    n = 120 if tier == 'thorough' else 40
    jobs, metas = [], []
    for _ in range(n):
        t = ref.gen_table(rng, 3)
        try:
            good = ref.enc_table(t)
        except ref.Refused:
            continue
        for data in [good] + ref.faulty(rng, good)[:25 if tier == 'thorough' else 12]:
            jobs.append({'target': 'pyvc.probe.decode_table', 'args': [values.encode(data)], 'wall_s': 3, 'step_budget': 400000})
            metas.append(data)
    outs = replay.native_calls(jobs, timeout=600)
    viol = []
    for data, obs, job in zip(metas, outs, jobs):
        try:
            exp, consumed = ref.dec_table(data)
            valid = True
        except (ref.Malformed, IndexError, OverflowError, ValueError):
            valid = False
        if obs['outcome'] == 'budget':
            viol.append(_violation(prop, 'decode.field_table', job, 'terminates', obs))
        elif valid:
            ok = obs['outcome'] == 'return'
            if ok:
                got = values.decode(obs['value'])
                ok = got.get('consumed') == consumed and ref.same(got.get('decoded'), exp)
            if not ok:
                viol.append(_violation(prop, 'decode.field_table', job, 'decodes to %r consuming %d' % (exp, consumed), obs))
        elif obs['outcome'] == 'raise' and not ({'struct.error', 'builtins.ValueError', 'builtins.OverflowError'} & set(obs.get('mro', []))):
            viol.append(_violation(prop, 'decode.field_table', job, 'struct.error / ValueError / OverflowError or a value', obs))
    return {'violations': viol[:10], 'coverage': {'bounded_pipeline_checks': [
        {'what': 'grammar-generated and fault-injected field tables through the real decoder vs the reference decoder',
         'inputs': len(jobs), 'failures': len(viol), 'bounded': True}]}}


def table_order(prop, tier, rng):
    """C12: equal contents, different insertion order -> identical bytes; encoding twice -> identical; input unchanged."""
    n = 200 if tier == 'thorough' else 60
    jobs = []
    for i in range(n):
        t = ref.gen_table(rng, 2)
        if i % 4 == 0:
            # names longer than 128 characters that coincide after truncation (emitted in sorted order, whatever the insertion order)
            t['n' * 128 + 'a'] = i
            t['n' * 128 + 'b'] = -i
            if i % 8 == 0:
                t = dict(reversed(list(t.items())))
        try:
            ref.enc_table(t)
        except ref.Refused:
            continue
        jobs.append({'target': 'pyvc.probe.table_encodings', 'args': [values.encode(t)]})
    # names that collide after truncation to 128 characters are outside "equal contents" only if they differ: keep one
    outs = replay.native_calls(jobs, timeout=300)
    viol = []
    for obs, job in zip(outs, jobs):
        if obs['outcome'] != 'return':
            continue
        got = values.decode(obs['value'])
        if not (got['encoded'] == got['again'] == got['reversed'] == got['rotated'] and got['input_unchanged']):
            viol.append(_violation(prop, 'encode.field_table', job, 'same bytes for every insertion order, input unchanged', obs))
    return {'violations': viol[:10], 'coverage': {'bounded_pipeline_checks': [
        {'what': 'tables encoded twice and in reversed / rotated insertion order', 'inputs': len(jobs),
         'failures': len(viol), 'bounded': True}]}}


def time_zones(prop, tier, rng):
    """C15: the same timestamp calls in child processes under different TZ settings give identical results."""
    import datetime
    import subprocess
    import sys
    zones = ['UTC', 'America/New_York', 'Asia/Kolkata', 'Pacific/Kiritimati', 'Australia/Lord_Howe', 'Europe/Berlin',
             'America/St_Johns']
    if tier != 'thorough':
        zones = zones[:4]
    prog = r'''
import sys, time, json, datetime, calendar
sys.path.insert(0, %r)
time.tzset()
from pamqp import encode, decode
out = []
naive = [datetime.datetime(2021, 3, 28, 2, 30), datetime.datetime(2021, 11, 7, 1, 30), datetime.datetime(1970, 1, 1),
         datetime.datetime(2038, 1, 19, 3, 14, 8), datetime.datetime(2106, 2, 7, 6, 28, 15), datetime.datetime(2000, 6, 15, 12, 0, 0, 999999)]
aware = [d.replace(tzinfo=datetime.timezone(datetime.timedelta(hours=h, minutes=m))) for d in naive[:4] for h, m in ((0, 0), (5, 30), (-8, 0), (14, 0))]
structs = [time.gmtime(s) for s in (0, 1616898600, 1636263000, 2**31 - 1, 4294967295)] + \
          [time.struct_time((2021, 3, 28, 2, 30, 0, 6, 87, isdst)) for isdst in (-1, 0, 1)]
for v in naive + aware + structs:
    try:
        out.append(encode.timestamp(v).hex())
    except Exception as exc:
        out.append(type(exc).__name__)
for s in (0, 1, 1616898600, 1636263000, 2**31, 4294967295, 4294967296, 1616898600123):
    c, d = decode.timestamp(s.to_bytes(8, 'big'))
    out.append([c, d.isoformat(), str(d.utcoffset()), d.tzinfo is datetime.timezone.utc])
# every route by which a time value reaches the wire, against the stated reading (struct_time / naive: as if UTC;
# aware: the absolute instant) - also for struct_times that carry a zone of their own (tm_gmtoff) and for local ones
import struct
from pamqp import commands
carrying = [time.struct_time((2021, 3, 28, 2, 30, 0, 6, 87, 0, 'EST', -18000)), time.struct_time((2021, 7, 1, 12, 0, 0, 3, 182, 1, 'XDT', 19800)),
            time.localtime(86400), time.localtime(1636263000), time.localtime(1616898600)]
folded = []
try:
    import zoneinfo
    for zone, args in (('America/New_York', (2021, 11, 7, 1, 30, 0, 250000)), ('Europe/Berlin', (2021, 10, 31, 2, 30, 0, 1)),
                       ('Australia/Lord_Howe', (2021, 4, 4, 1, 45, 0, 500000))):
        for fold in (0, 1):
            folded.append(datetime.datetime(*args, tzinfo=zoneinfo.ZoneInfo(zone), fold=fold))
except Exception:
    pass
routes = []
for v in structs + carrying + naive[:5] + aware[:6] + folded:
    if isinstance(v, time.struct_time):
        want = calendar.timegm(v)
    elif v.tzinfo is None:
        want = calendar.timegm(v.timetuple())
    else:
        want = calendar.timegm(v.utctimetuple())
    if not 0 <= want < 2 ** 64:
        continue
    w = struct.pack('>Q', want)
    got = []
    for f in (lambda: encode.timestamp(v), lambda: encode.encode_table_value(v)[1:], lambda: encode.field_table({'t': v})[-8:],
              lambda: encode.field_array([v])[-8:], lambda: commands.Basic.Properties(timestamp=v).marshal()[-8:]):
        try:
            got.append(f() == w)
        except Exception as exc:
            got.append(type(exc).__name__)
    routes.append(got)
out.append(routes)
print(json.dumps(out))
''' % replay.REPO
    results = {}
    for z in zones:
        env = dict(os.environ, TZ=z)
        p = subprocess.run([replay.VENV_PY, '-W', 'ignore', '-c', prog], capture_output=True, text=True, env=env, timeout=60)
        results[z] = p.stdout.strip() or ('ERROR ' + p.stderr[-300:])
    base = results[zones[0]]
    viol = []
    for z in zones[1:]:
        if results[z] != base:
            job = {'target': 'time-zone comparison', 'args': [z]}
            viol.append(_violation(prop, 'encode.timestamp / decode.timestamp under TZ=%s' % z, job,
                                   'identical to TZ=%s' % zones[0], {'this': results[z][:400], 'reference': base[:400]}))
    for z in zones:
        if not results[z].startswith('['):
            continue
        routes = json.loads(results[z])[-1]
        bad = [(i, r) for i, r in enumerate(routes) if any(x is not True for x in r)]
        if bad:
            job = {'target': 'time-zone comparison', 'args': [z]}
            viol.append(_violation(prop, 'time value routes under TZ=%s' % z, job,
                                   'every route (timestamp, table value, table, array, properties) emits the as-if-UTC / absolute instant',
                                   {'value index and per-route result': bad[:4]}, against='the stated reading of time values'))
    n = len(json.loads(base)) if base.startswith('[') else 0
    return {'violations': viol, 'coverage': {'bounded_pipeline_checks': [
        {'what': 'timestamp codecs in child processes under TZ settings %s' % zones, 'inputs': n * len(zones),
         'failures': len(viol), 'bounded': True}]}}


def mapping_protocol(prop, tier, rng):
    """C19: all mapping views of all 65 classes, computed twice in ONE process (state shared between classes or
    calls would show), against the ordered names of the specification table."""
    from spec import tables
    job = {'target': 'pyvc.probe.mapping_views', 'args': []}
    obs = replay.native_calls([job])[0]
    viol = []
    want = {m.name: ([f.name for f in m.fields], [f.wire for f in m.fields]) for m in tables.METHODS}
    want['Basic.Properties'] = ([n for n, _, _ in tables.PROPERTIES], [w for _, _, w in tables.PROPERTIES])
    rows = values.decode(obs['value']) if obs['outcome'] == 'return' else []
    if obs['outcome'] != 'return':
        viol.append(_violation(prop, 'mapping views', job, 'returns', obs))
    for r in rows:
        names, types = want[r['class']]
        ok = (r['iter'] == names and r['len'] == len(names) and r['attributes'] == names and r['dict_keys'] == names
              and r['contains'] == [True] * len(names) + [False] and r['getitem_agrees'] and r['types'] == types)
        if not ok:
            viol.append(_violation(prop, 'mapping views of %s' % r['class'], job, 'names %r types %r' % (names, types), r))
            break
    return {'violations': viol[:3], 'coverage': {'bounded_pipeline_checks': [
        {'what': 'mapping views of all 65 classes, two rounds in one process', 'inputs': len(rows), 'failures': len(viol),
         'bounded': True}]}}


def decode_budget(prop, tier, rng):
    """C08 (bounded stand-in for the clauses a contract cannot state): decoding steps and peak allocation of
    frame.unmarshal on valid frames and on frames whose embedded length fields are rewritten, measured natively.
    Bounds checked: trace events inside pamqp's files <= 60 * len + 3000, peak allocation <= 64 * len + 64 KiB."""
    import struct
    n = 60 if tier == 'thorough' else 20
    frames = []
    for _ in range(n):
        t = ref.gen_table(rng, 2)
        try:
            table = ref.enc_table(t)
        except ref.Refused:
            continue
        # Queue.Declare (50,10): ticket, queue shortstr, bits, arguments table
        payload = struct.pack('>I', 0x0032000A) + b'\x00\x00' + b'\x01q' + b'\x00' + table
        good = b'\x01\x00\x01' + struct.pack('>I', len(payload)) + payload + b'\xce'
        frames.append(good)
        body = bytearray(good)
        # rewrite each embedded 4-octet length (table, strings, arrays, byte arrays) to large values
        for i in range(7 + 4 + 5, len(body) - 5):
            if body[i:i + 1] in (b'S', b'x', b'A', b'F'):
                for big in (0x08000000, 0xFFFFFFFB, 0x7FFFFFFF):
                    m = bytearray(good)
                    m[i + 1:i + 5] = struct.pack('>I', big)
                    frames.append(bytes(m))
        m = bytearray(good)
        m[7 + 4 + 5:7 + 4 + 9] = struct.pack('>I', 0x08000000)      # the arguments table itself
        frames.append(bytes(m))
    frames = frames[:400]
    # names: long runs of legal characters ending in an illegal one (nothing on the decode path may take time
    # super-linear in the name, e.g. a backtracking pattern match)
    for k in (16, 24, 32, 48, 64, 120, 250):
        for tail in (b'!', b'\xc3\xa9', b'a'):
            name = b'a' * k + tail
            qd = struct.pack('>I', 0x0032000A) + b'\x00\x00' + bytes([len(name)]) + name + b'\x00' + b'\x00\x00\x00\x00'
            ed = struct.pack('>I', 0x0028000A) + b'\x00\x00' + bytes([len(name)]) + name + b'\x06direct\x00' + b'\x00\x00\x00\x00'
            for payload in (qd, ed):
                frames.append(b'\x01\x00\x01' + struct.pack('>I', len(payload)) + payload + b'\xce')
    # deep nesting: a value that fails to decode at the bottom of d nested tables / arrays (work must stay linear in the
    # input, not multiply per level), and the intact version
    for d in (4, 8, 12, 16, 20, 24):
        for container in ('table', 'array'):
            inner = {'a': 1} if container == 'table' else [1]
            for _ in range(d):
                inner = {'a': inner} if container == 'table' else [inner]
            try:
                table = ref.enc_table({'n': inner})
            except ref.Refused:
                continue
            payload = struct.pack('>I', 0x0032000A) + b'\x00\x00' + b'\x01q' + b'\x00' + table
            good = b'\x01\x00\x01' + struct.pack('>I', len(payload)) + payload + b'\xce'
            frames.append(good)
            at = good.rfind(b'\x01')          # the innermost scalar's value octet; its tag precedes it
            for tag in (b'l', b'd', b'T', b'S', b'x', b'A', b'F', b'D'):
                m = bytearray(good)
                m[at - 1:at] = tag
                frames.append(bytes(m))
    jobs = [{'target': 'pyvc.probe.unmarshal_measured', 'args': [values.encode(f)], 'wall_s': 5, 'step_budget': 3000000}
            for f in frames]
    outs = replay.native_calls(jobs, timeout=900)
    viol = []
    worst = (0, 0)
    for f, obs, job in zip(frames, outs, jobs):
        if obs['outcome'] == 'budget':
            viol.append(_violation(prop, 'frame.unmarshal', job, 'terminates within the step budget', obs))
            continue
        if obs['outcome'] != 'return':
            continue
        got = values.decode(obs['value'])
        steps = got['events']
        worst = (max(worst[0], steps / max(1, len(f))), max(worst[1], got['peak'] / max(1, len(f))))
        if steps > 60 * len(f) + 3000:
            viol.append(_violation(prop, 'frame.unmarshal', job, 'at most 60*len+3000 trace events inside pamqp', obs))
        elif got['peak'] > 64 * len(f) + 65536:
            viol.append(_violation(prop, 'frame.unmarshal', job, 'peak allocation at most 64*len + 64 KiB', obs))
    return {'violations': viol[:5], 'coverage': {'bounded_pipeline_checks': [
        {'what': 'decoding steps and peak allocation of frame.unmarshal on valid frames and on frames with rewritten embedded '
                 'length fields (tracemalloc, sys.settrace): the time / memory clauses of C08 are only measured, not proved',
         'inputs': len(jobs), 'worst_steps_per_octet': round(worst[0], 1), 'worst_peak_octets_per_octet': round(worst[1], 1),
         'failures': len(viol), 'bounded': True}]}}


# ---------------------------------------------------------------- API session: every call gives what it gives in a fresh interpreter
SESSION_KINDS = {
    'marshal': ('C01', 'C04', 'C10', 'C12', 'C16'), 'views': ('C19', 'C16', 'C12'), 'default': ('C16', 'C14', 'C06'),
    'header': ('C16', 'C02', 'C06'), 'unmarshal': ('C05', 'C01', 'C02', 'C16', 'C09'), 'table': ('C03', 'C12', 'C16', 'C10'),
    'scalar': ('C03', 'C11', 'C12', 'C16', 'C10'), 'texts': ('C16',), 'remarshal': ('C13', 'C04', 'C12', 'C16', 'C10'),
}


def _session_jobs(rng, n_per_class):
    import string
    from spec import tables
    jobs = []

    def value(m, f):
        fixed = {fn: p for fn, kind, p in tables.constraints(m) if kind == 'fixed'}
        maxlen = {fn: p for fn, kind, p in tables.constraints(m) if kind == 'maxlen'}
        if f.name in fixed:
            return fixed[f.name]
        w = f.wire
        if w == 'bit':
            return rng.random() < 0.6
        if w in ('octet', 'short', 'long', 'longlong'):
            hi = {'octet': 255, 'short': 65535, 'long': 2 ** 32 - 1, 'longlong': 2 ** 64 - 1}[w]
            return rng.choice([0, 1, hi, rng.randrange(hi + 1)])
        if w in ('shortstr', 'longstr'):
            n = rng.randrange(0, min(12, maxlen.get(f.name, 12)) + 1)
            return ''.join(rng.choice(string.ascii_letters + string.digits + '-_.:') for _ in range(n))
        if w == 'table':
            try:
                t = ref.gen_table(rng, 2)
                ref.enc_table(t)
                return t
            except ref.Refused:
                return {}
        if w == 'timestamp':
            return datetime.datetime(2020, 2, 29, 12, 0, rng.randrange(60), tzinfo=datetime.timezone.utc)
        raise ValueError(w)

    for m in tables.METHODS:
        for _ in range(n_per_class):
            attrs = {f.name: value(m, f) for f in m.fields}
            enc = {k: values.encode(v) for k, v in attrs.items()}
            jobs.append(('marshal', {'target': 'pyvc.probe.session_marshal',
                                     'args': [m.name, {'__dict__': [[k, v] for k, v in enc.items()]}, rng.choice([0, 1, 40000])]}))
        attrs = {f.name: value(m, f) for f in m.fields}
        jobs.append(('views', {'target': 'pyvc.probe.session_views',
                               'args': [m.name, {'__dict__': [[k, values.encode(v)] for k, v in attrs.items()]}]}))
        if m.fields:
            changes = {}
            for f in m.fields[:3]:
                v = attrs[f.name]
                if f.wire == 'bit':
                    changes[f.name] = not v
                elif f.wire in ('octet', 'short', 'long', 'longlong'):
                    changes[f.name] = 7 if v != 7 else 8
                elif f.wire in ('shortstr', 'longstr'):
                    changes[f.name] = rng.choice(['changed', 'bad name!', 'x' * 300])
            if changes:
                jobs.append(('remarshal', {'target': 'pyvc.probe.session_remarshal', 'args': [
                    m.name, {'__dict__': [[k, values.encode(v)] for k, v in attrs.items()]},
                    {'__dict__': [[k, values.encode(v)] for k, v in changes.items()]}, 1]}))
        jobs.append(('texts', {'target': 'pyvc.probe.session_texts',
                               'args': [m.name, {'__dict__': [[k, values.encode(v)] for k, v in attrs.items()]}]}))
        jobs.append(('default', {'target': 'pyvc.probe.session_default', 'args': [m.name]}))
    jobs.append(('views', {'target': 'pyvc.probe.session_views', 'args': ['Basic.Properties', {'__dict__': [
        ['content_type', 'a/b'], ['delivery_mode', 2], ['headers', values.encode({'k': 1})]]}]}))
    for mutate in (True, False, True):
        jobs.append(('header', {'target': 'pyvc.probe.session_header', 'args': [mutate]}))
    from pyvc.replay import wire_corpus
    for data in wire_corpus():
        if data[:1] in (b'\x01', b'\x02', b'\x03', b'\x08', b'A') and len(data) < 4000:
            jobs.append(('unmarshal', {'target': 'pyvc.probe.session_unmarshal', 'args': [values.encode(data)]}))
    for _ in range(10):
        try:
            t = ref.gen_table(rng, 2)
            ref.enc_table(t)
        except ref.Refused:
            continue
        bad = dict(t)
        bad['bad'] = rng.choice([2 ** 70, -2 ** 70])       # no integer wire type holds it: the encode fails part-way
        jobs.append(('table', {'target': 'pyvc.probe.session_table', 'args': [values.encode(bad)]}))
        jobs.append(('table', {'target': 'pamqp.encode.field_table', 'args': [values.encode(t)]}))
        nested = dict(t)
        nested['nest'] = {'inner': [1, 'two', rng.choice([2 ** 70, -2 ** 70])]}
        jobs.append(('table', {'target': 'pyvc.probe.session_table_repair', 'args': [values.encode(nested), ['nest', 'inner']]}))
        jobs.append(('table', {'target': 'pyvc.probe.decode_table', 'args': [values.encode(ref.enc_table(t))]}))
    D = decimal.Decimal
    scalars = [True, 1.0, D('1'), False, 0.0, -0.0, 1, 0, D('2.5'), D('2.50'), D('7.0'), D('7.00'), 255, 256, -1, 2 ** 31, 'x', '']
    for v in scalars + scalars[::-1]:
        jobs.append(('scalar', {'target': 'pamqp.encode.encode_table_value', 'args': [values.encode(v)]}))
    for v in [D('2.5'), D('2.50'), D('7.00'), D('7.0'), D('-0.010'), D('123456.7'), D('21474836.47'), D('-1234567.891')]:
        jobs.append(('scalar', {'target': 'pamqp.encode.decimal', 'args': [values.encode(v)]}))
    for raw in (b'D\x01\x00\x12\xd6\x87', b'D\x02\x7f\xff\xff\xff', b'D\x00\x00\x00\x00\x01'):
        jobs.append(('scalar', {'target': 'pyvc.probe.decode_value', 'args': [values.encode(raw)]}))
    for legacy in (False, True):
        for n in (0, 200, 40000, -40000, 2 ** 31, 2 ** 32 - 1, -129):
            jobs.append(('scalar', {'target': 'pamqp.encode.table_integer', 'args': [n],
                                    'globals': {'pamqp.encode.DEPRECATED_RABBITMQ_SUPPORT': legacy}}))
    return jobs


def _same_outcome(a, b):
    if a.get('outcome') != b.get('outcome'):
        return False
    if a['outcome'] == 'raise':
        return a.get('exc') == b.get('exc')
    if a['outcome'] == 'return':
        return a.get('value') == b.get('value')
    return True


def session_history(prop, tier, rng):
    """C16 as stated (and the history clauses of the other properties), bounded: a long session of API calls in ONE process -
    constructions with defaults, encodes, decodes of valid and malformed frames, failed encodes, mapping views, both
    values of the switch - in which every call must give exactly what the same call gives in a forked child in which
    no call of the session has run.  The objects a call returns are scribbled on afterwards, so shared mutable state
    between results or defaults shows up in a later call."""
    jobs = _session_jobs(rng, 2 if tier == 'thorough' else 1)
    mine = {k for k, props in SESSION_KINDS.items() if prop in props}
    order = list(range(len(jobs)))
    seq = []
    for _ in range(3 if tier == 'thorough' else 2):
        rng.shuffle(order)
        seq += order
    from concurrent.futures import ThreadPoolExecutor
    iso = [dict(j, isolate=True, wall_s=5) for _, j in jobs]
    chunks = [iso[k::8] for k in range(8)]
    # variants: interpreter-wide settings that must not change any result (logging) or under which the history clause
    # must hold just the same (a small decimal context precision, warnings as errors)
    variants = [('default', None, 'default'), ('logging at DEBUG', {'logging': 'DEBUG'}, 'default')]
    if tier == 'thorough' or prop == 'C16':        # (C16 is the property that states this clause: all variants on every run)
        variants += [('logging disabled', {'logging': 'disabled'}, 'default'),
                     ('decimal context precision 5', {'decimal_prec': 5}, 'same'),
                     ('warnings as errors', {'warnings': 'error'}, 'same')]

    def fresh_under(setup):
        with ThreadPoolExecutor(8) as ex:
            parts = list(ex.map(lambda c: replay.native_calls(c, 900, setup), chunks))
        out = [None] * len(iso)
        for k, part in enumerate(parts):
            out[k::8] = part
        return out

    with ThreadPoolExecutor(len(variants) + 1) as ex:
        hist_f = {name: ex.submit(replay.native_calls, [jobs[i][1] for i in seq], 900, setup) for name, setup, _ in variants}
        fresh_default = fresh_under(None)
        hists = {name: f.result() for name, f in hist_f.items()}
    viol, checked = [], 0
    reported = set()

    def must_hold_failures(obs):
        if obs.get('outcome') != 'return':
            return []
        try:
            val = values.decode(obs['value'])
        except Exception:
            return []
        mh = val.get('must_hold') if isinstance(val, dict) else None
        return [k for k, ok in (mh or {}).items() if ok is not True]

    for name, setup, against in variants:
        fresh = fresh_default if against == 'default' else fresh_under(setup)
        hist = hists[name]
        for pos, (i, obs) in enumerate(zip(seq, hist)):
            kind, job = jobs[i]
            exp = fresh[i]
            if kind not in mine or (i, name) in reported or i in {r for r, _ in reported if _ == 'default'}:
                continue
            if exp.get('outcome') not in ('return', 'raise') or obs.get('outcome') not in ('return', 'raise', 'budget'):
                continue
            checked += 1
            broken = must_hold_failures(obs)
            if _same_outcome(exp, obs) and not broken:
                continue
            reported.add((i, name))
            sequence = None
            if not broken:
                # shrink: one earlier call of the session followed by this one, in a child of their own
                seen = set()
                for k in reversed(seq[:pos]):
                    if k in seen:
                        continue
                    seen.add(k)
                    if len(seen) > 150:
                        break
                    r = replay.native_calls([{'isolate': True, 'sequence': [jobs[k][1], job]}], 120, setup)[0]
                    if r.get('outcome') == 'sequence' and not _same_outcome(exp, r['results'][1]):
                        sequence = [jobs[k][1], job]
                        break
                if sequence is None:
                    alone = replay.native_calls([dict(job, isolate=True)], 120, setup)[0]
                    sequence = [job] if not _same_outcome(exp, alone) else [jobs[k][1] for k in seq[:pos]] + [job]
            else:
                sequence = [job]
            rjob = dict(job, isolate=True, sequence=sequence)
            if setup:
                rjob['setup'] = setup
            expected = ('every entry of must_hold is true (failed: %s)' % broken) if broken else \
                       ('the outcome of the same call in a fresh child%s: %s'
                        % (' under the default settings' if against == 'default' and setup else '', json.dumps(exp)[:300]))
            viol.append(_violation(prop, job['target'] + (' [%s]' % name if setup else ''), rjob, expected, obs,
                                   against='the same call in a fresh interpreter'))
            if len(viol) >= 5:
                break
        if len(viol) >= 5:
            break
    return {'violations': viol, 'coverage': {'bounded_pipeline_checks': [
        {'what': 'API session in one process (%d calls of %d distinct: marshal of every method class, re-marshal after attribute '
                 'changes, mapping views, repr/str, default constructions, content headers, frame decodes of a grammar corpus with '
                 'results scribbled on, failing / repaired / valid table encodes, equal-valued scalars of different types, both '
                 'switch values): each call compared with the same call in a forked child where no call of the session has run; '
                 'repeated under %s' % (len(seq), len(jobs), [v[0] for v in variants]),
         'inputs': checked, 'kinds_checked_for_this_property': sorted(mine), 'failures': len(viol), 'bounded': True}]}}
