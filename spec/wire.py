"""spec.wire -- the AMQP 0-9-1 wire grammar, written from the specification
(frame grammar 4.2.x, field-table grammar, RabbitMQ errata), *not* from the
code.  Every function accepts concrete python values or pyvc symbolic values
and is therefore interpreted twice: symbolically inside obligations and
concretely as the reference codec used by replay and the bounded stand-in.
Never imports pamqp.
"""
import z3

from pyvc import sym
from pyvc.sym import SInt, SBool, SBytes, SStr, Chunk, I, EngineError, mk_int


def _checked_range(st, n, lo, hi, what):
    if isinstance(n, (int, bool)):
        if not lo <= int(n) <= hi:
            raise EngineError('spec: %s of out-of-range value %r' % (what, n))
        return
    t = I(n)
    if not st.must(z3.And(t >= lo, t <= hi)):
        raise EngineError('spec: %s of a value not known to be in range (guard too weak?)' % what)


def be(st, width, n):
    """Unsigned big-endian, `width` octets.  The caller's guard must put n in range."""
    _checked_range(st, n, 0, 256 ** width - 1, 'be%d' % width)
    if isinstance(n, (int, bool)):
        return int(n).to_bytes(width, 'big')
    return SBytes(st.pack_uint(I(n), width))


def sbe(st, width, n):
    """Two's-complement big-endian, `width` octets."""
    _checked_range(st, n, -(256 ** width) // 2, 256 ** width // 2 - 1, 'sbe%d' % width)
    if isinstance(n, (int, bool)):
        return int(n).to_bytes(width, 'big', signed=True)
    return SBytes(st.pack_sint(I(n), width))


def cat(st, *parts):
    segs = []
    for p in parts:
        segs.extend(st.to_rope(p).segs)
    return st.mk_bytes(segs)


def ube(st, atoms):
    return st.unpack_uint(list(atoms))


# ---------------------------------------------------------------- table integers (C11)
# "the first type that fits in the documented order signed 8, signed 16,
#  unsigned 16, signed 32, unsigned 32, signed 64 bits (tags b, s, u, I, i, l)";
# legacy: only b, s, I, l.
LADDER = [
    ('b', -2 ** 7, 2 ** 7 - 1, 1, True),
    ('s', -2 ** 15, 2 ** 15 - 1, 2, True),
    ('u', 0, 2 ** 16 - 1, 2, False),
    ('I', -2 ** 31, 2 ** 31 - 1, 4, True),
    ('i', 0, 2 ** 32 - 1, 4, False),
    ('l', -2 ** 63, 2 ** 63 - 1, 8, True),
]
LEGACY_TAGS = ('b', 's', 'I', 'l')
S64 = (-2 ** 63, 2 ** 63 - 1)


def ladder(legacy):
    return [r for r in LADDER if (not legacy) or r[0] in LEGACY_TAGS]


def tag_int_rung(st, n, rung):
    tag, lo, hi, width, signed = rung
    body = sbe(st, width, n) if signed else be(st, width, n)
    return cat(st, tag.encode('ascii'), body)


def tag_int_concrete(n, legacy):
    for tag, lo, hi, width, signed in ladder(legacy):
        if lo <= n <= hi:
            return tag.encode('ascii') + int(n).to_bytes(width, 'big', signed=signed)
    return None


# ---------------------------------------------------------------- byte-string helpers for specifications
def blen(st, rope):
    """Length of a byte string (python int or z3 term)."""
    if isinstance(rope, (bytes, bytearray)):
        return len(rope)
    return mk_int(st.rope_len_term(rope))


def peek(st, rope, k):
    """The first k octets as atoms, or None when the string is shorter.
    May branch (specification-side evaluation is explored per decision)."""
    if isinstance(rope, (bytes, bytearray)):
        return list(rope[:k]) if len(rope) >= k else None
    n = st.rope_len_term(rope)
    if not st.branch(n >= k, 'spec:peek%d' % k):
        return None
    atoms, _ = st.take_bytes(st.expand(st.to_rope(rope).segs), k, 'spec:peek')
    return atoms


def byte_at(st, rope, pos):
    """Octet at position pos (0 <= pos < len established by the caller)."""
    if isinstance(rope, (bytes, bytearray)) and isinstance(pos, int):
        return rope[pos]
    v = st.rope_index(rope, pos, 'spec:byte_at')
    return v


def sub(st, rope, lo, hi):
    if isinstance(rope, (bytes, bytearray)) and isinstance(lo, int) and isinstance(hi, int):
        return rope[lo:hi]
    return st.rope_slice(rope, lo, hi, 'spec:sub')


def atoms_eq(atoms, literal):
    from pyvc.dsl import conj, eq
    return conj(*[eq(a, b) for a, b in zip(atoms, literal)])


def uint(atoms):
    from pyvc.sym import State
    return State.unpack_uint(list(atoms))


# ---------------------------------------------------------------- general frame format (AMQP 0-9-1 section 4.2.3)
FRAME_END = 0xCE
TYPE_METHOD, TYPE_HEADER, TYPE_BODY, TYPE_HEARTBEAT = 1, 2, 3, 8


def frame(st, ftype, channel, payload):
    """type octet, channel (2 octets), payload size (4 octets), payload, frame-end."""
    return cat(st, be(st, 1, ftype), be(st, 2, channel), be(st, 4, blen(st, payload)), payload, bytes([FRAME_END]))


HEARTBEAT_FRAME = bytes([TYPE_HEARTBEAT, 0, 0, 0, 0, 0, 0, FRAME_END])


def protocol_header(st, major, minor, revision):
    return cat(st, b'AMQP', b'\x00', be(st, 1, major), be(st, 1, minor), be(st, 1, revision))
