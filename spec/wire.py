"""spec.wire -- the AMQP 0-9-1 wire grammar, written from the specification
(frame grammar 4.2.x, field-table grammar, RabbitMQ errata), *not* from the
code.  Every function accepts concrete python values or pyvc symbolic values
and is therefore interpreted twice: symbolically inside obligations and
concretely as the reference codec used by replay and the bounded stand-in.
Never imports pamqp.
"""
import z3

from pyvc import sym
from pyvc.sym import SInt, SBool, SBytes, SStr, Chunk, I, EngineError, mk_int


def _checked_range(st, n, lo, hi, what):
    if isinstance(n, (int, bool)):
        if not lo <= int(n) <= hi:
            raise EngineError('spec: %s of out-of-range value %r' % (what, n))
        return
    t = I(n)
    if not st.must(z3.And(t >= lo, t <= hi)):
        raise EngineError('spec: %s of a value not known to be in range (guard too weak?)' % what)


def be(st, width, n):
    """Unsigned big-endian, `width` octets.  The caller's guard must put n in range."""
    _checked_range(st, n, 0, 256 ** width - 1, 'be%d' % width)
    if isinstance(n, (int, bool)):
        return int(n).to_bytes(width, 'big')
    return SBytes(st.pack_uint(I(n), width))


def sbe(st, width, n):
    """Two's-complement big-endian, `width` octets."""
    _checked_range(st, n, -(256 ** width) // 2, 256 ** width // 2 - 1, 'sbe%d' % width)
    if isinstance(n, (int, bool)):
        return int(n).to_bytes(width, 'big', signed=True)
    return SBytes(st.pack_sint(I(n), width))


def cat(st, *parts):
    segs = []
    for p in parts:
        segs.extend(st.to_rope(p).segs)
    return st.mk_bytes(segs)


def ube(st, atoms):
    return st.unpack_uint(list(atoms))


# ---------------------------------------------------------------- table integers (C11)
# "the first type that fits in the documented order signed 8, signed 16,
#  unsigned 16, signed 32, unsigned 32, signed 64 bits (tags b, s, u, I, i, l)";
# legacy: only b, s, I, l.
LADDER = [
    ('b', -2 ** 7, 2 ** 7 - 1, 1, True),
    ('s', -2 ** 15, 2 ** 15 - 1, 2, True),
    ('u', 0, 2 ** 16 - 1, 2, False),
    ('I', -2 ** 31, 2 ** 31 - 1, 4, True),
    ('i', 0, 2 ** 32 - 1, 4, False),
    ('l', -2 ** 63, 2 ** 63 - 1, 8, True),
]
LEGACY_TAGS = ('b', 's', 'I', 'l')
S64 = (-2 ** 63, 2 ** 63 - 1)


def ladder(legacy):
    return [r for r in LADDER if (not legacy) or r[0] in LEGACY_TAGS]


def tag_int_rung(st, n, rung):
    tag, lo, hi, width, signed = rung
    body = sbe(st, width, n) if signed else be(st, width, n)
    return cat(st, tag.encode('ascii'), body)


def tag_int_concrete(n, legacy):
    for tag, lo, hi, width, signed in ladder(legacy):
        if lo <= n <= hi:
            return tag.encode('ascii') + int(n).to_bytes(width, 'big', signed=signed)
    return None


# ---------------------------------------------------------------- byte-string helpers for specifications
def blen(st, rope):
    """Length of a byte string (python int or z3 term)."""
    if isinstance(rope, (bytes, bytearray)):
        return len(rope)
    return mk_int(st.rope_len_term(rope))


def peek(st, rope, k):
    """The first k octets as atoms, or None when the string is shorter.
    May branch (specification-side evaluation is explored per decision)."""
    if isinstance(rope, (bytes, bytearray)):
        return list(rope[:k]) if len(rope) >= k else None
    n = st.rope_len_term(rope)
    if not st.branch(n >= k, 'spec:peek%d' % k):
        return None
    atoms, _ = st.take_bytes(st.expand(st.to_rope(rope).segs), k, 'spec:peek')
    return atoms


def byte_at(st, rope, pos):
    """Octet at position pos (0 <= pos < len established by the caller)."""
    if isinstance(rope, (bytes, bytearray)) and isinstance(pos, int):
        return rope[pos]
    v = st.rope_index(rope, pos, 'spec:byte_at')
    return v


def sub(st, rope, lo, hi):
    if isinstance(rope, (bytes, bytearray)) and isinstance(lo, int) and isinstance(hi, int):
        return rope[lo:hi]
    return st.rope_slice(rope, lo, hi, 'spec:sub')


def atoms_eq(atoms, literal):
    from pyvc.dsl import conj, eq
    return conj(*[eq(a, b) for a, b in zip(atoms, literal)])


def uint(atoms):
    from pyvc.sym import State
    return State.unpack_uint(list(atoms))


# ---------------------------------------------------------------- general frame format (AMQP 0-9-1 section 4.2.3)
FRAME_END = 0xCE
TYPE_METHOD, TYPE_HEADER, TYPE_BODY, TYPE_HEARTBEAT = 1, 2, 3, 8


def frame(st, ftype, channel, payload):
    """type octet, channel (2 octets), payload size (4 octets), payload, frame-end."""
    return cat(st, be(st, 1, ftype), be(st, 2, channel), be(st, 4, blen(st, payload)), payload, bytes([FRAME_END]))


HEARTBEAT_FRAME = bytes([TYPE_HEARTBEAT, 0, 0, 0, 0, 0, 0, FRAME_END])


def protocol_header(st, major, minor, revision):
    return cat(st, b'AMQP', b'\x00', be(st, 1, major), be(st, 1, minor), be(st, 1, revision))


# ---------------------------------------------------------------- strings
def utf8_ok(st, rope):
    """Is this octet string valid UTF-8?  (bool or term; assumption A4)"""
    if isinstance(rope, (bytes, bytearray)):
        try:
            bytes(rope).decode('utf-8')
            return True
        except UnicodeDecodeError:
            return False
    segs = [s for s in st.expand(rope.segs) if not (isinstance(s, Chunk) and st.must(s.len == 0))]
    if not segs:
        return True
    return sym.utf8_valid(st.name_rope(segs).t)


def utf8_str(st, rope):
    """The str a valid UTF-8 octet string denotes (use under utf8_ok)."""
    if isinstance(rope, (bytes, bytearray)):
        return bytes(rope).decode('utf-8')
    segs = [s for s in st.expand(rope.segs) if not (isinstance(s, Chunk) and st.must(s.len == 0))]
    if not segs:
        return ''
    c = st.name_rope(segs)
    s = sym.utf8_dec(c.t)
    st.str_facts(s)
    st.assume(z3.Implies(sym.utf8_valid(c.t), z3.And(sym.encodable(s), sym.utf8(s) == c.t)))
    return sym.SStr(s)


def str_utf8(st, s):
    """UTF-8 octets of an encodable str."""
    if isinstance(s, str):
        # (a str that is not encodable has no UTF-8 form; guards that mention its length are conjoined with
        #  str_encodable, so any total stand-in will do for concrete evaluation)
        return s.encode('utf-8', 'surrogatepass')
    t = st.str_term(s)
    return SBytes([st.new_chunk(term=sym.utf8(t))])


def str_encodable(st, s):
    if isinstance(s, str):
        try:
            s.encode('utf-8')
            return True
        except UnicodeEncodeError:
            return False
    return sym.encodable(st.str_term(s))


def short_string(st, s):
    """shortstr: length octet + UTF-8 octets (at most 255)."""
    u = str_utf8(st, s)
    return cat(st, be(st, 1, blen(st, u)), u)


def long_string(st, s):
    u = str_utf8(st, s)
    return cat(st, be(st, 4, blen(st, u)), u)


# ---------------------------------------------------------------- abstract field tables / arrays / timestamps / floats
# Uninterpreted specification functions; their unfoldings (the field-table
# grammar) are supplied when the table codecs themselves are verified.
Obj = sym.ObjS
enc_table = z3.Function('enc_table', Obj, z3.BoolSort(), sym.BytesS)        # full encoding incl. 4-octet length
table_encodable = z3.Function('table_encodable', Obj, z3.BoolSort(), z3.BoolSort())
enc_array = z3.Function('enc_array', Obj, z3.BoolSort(), sym.BytesS)
array_encodable = z3.Function('array_encodable', Obj, z3.BoolSort(), z3.BoolSort())
wf_table = z3.Function('wf_table', sym.BytesS, z3.BoolSort())                 # a grammar-valid table encoding
dec_table = z3.Function('dec_table', sym.BytesS, Obj)                         # the dict it denotes
wf_array = z3.Function('wf_array', sym.BytesS, z3.BoolSort())
dec_array = z3.Function('dec_array', sym.BytesS, Obj)
norm_value = z3.Function('norm_value', Obj, Obj)                              # documented normalisation (C03)
dict_nonempty = z3.Function('dict_nonempty', Obj, z3.BoolSort())
EMPTY_DICT = z3.Const('empty_dict', Obj)
# timestamps: instant in whole seconds since the epoch of a datetime / struct_time read as UTC
dt_seconds = z3.Function('dt_seconds', Obj, z3.IntSort())
dt_of_seconds = z3.Function('dt_of_seconds', z3.IntSort(), Obj)               # aware UTC datetime of that instant
dt_of_millis = z3.Function('dt_of_millis', z3.IntSort(), Obj)
dt_representable = z3.Function('dt_representable', z3.IntSort(), z3.BoolSort())


decimal_of = z3.Function('decimal_of', z3.IntSort(), z3.IntSort(), Obj)       # (unscaled, scale) -> Decimal

ROUNDTRIP_AXIOM = ('dec_table(enc_table(d, legacy)) == norm_value(d) and enc_table(d, legacy) is a grammar-valid table '
                   '(the table round trip: decided by the field-table contracts of C03, assumed by their callers)')


def table_bytes(st, d, legacy):
    """Encoding of a non-empty, encodable dict-valued table argument: an opaque
    specification function with the shape every table has (4-octet length, then
    that many octets)."""
    t = enc_table(d.t, sym.B(legacy))
    c = st.new_chunk(term=t)
    key = ('table_bytes', t.get_id())
    if key not in st.facts_done:
        st.facts_done.add(key)
        for prev in getattr(st, 'table_terms', []):
            if not prev.eq(t) and st.must(prev == t):
                st.refine_chunk(c, [st.new_chunk(term=prev)])     # the same octets as a table seen before
                return SBytes([c])
        st.table_terms = getattr(st, 'table_terms', []) + [t]
        ls = [st.new_byte('tlen') for _ in range(4)]
        body = st.new_chunk('tbody')
        st.refine_chunk(c, ls + [body])
        st.assume(z3.And(sym.I(uint(ls)) == body.len, body.len > 0, wf_table(t), dec_table(t) == norm_value(d.t)))
    return SBytes([c])


# ---------------------------------------------------------------- method arguments (AMQP 0-9-1 4.2.5: field packing)
INT_RANGES = {'octet': (0, 255, 1, False), 'short': (0, 2 ** 16 - 1, 2, False), 'long': (0, 2 ** 32 - 1, 4, False),
              'longlong': (-2 ** 63, 2 ** 63 - 1, 8, True)}


def _nonempty(v):
    from pyvc.contract import obj_nonempty
    return obj_nonempty(v.t)


def bits_octet(st, bits):
    """Consecutive bit fields share an octet, first field in the least significant bit."""
    if all(isinstance(b, bool) for b in bits):
        return sum((1 << k) for k, b in enumerate(bits) if b)
    return mk_int(z3.Sum([z3.If(sym.B(b), 2 ** k, 0) for k, b in enumerate(bits)]))


def field_ok(st, wire_type, v, legacy):
    """Is v (typed per I1) encodable as this wire type?"""
    from pyvc.dsl import conj, in_range, lt
    if wire_type in INT_RANGES:
        lo, hi, _, _ = INT_RANGES[wire_type]
        return in_range(v, lo, hi)
    if wire_type == 'bit':
        return True
    if wire_type in ('shortstr', 'longstr'):
        limit = 256 if wire_type == 'shortstr' else 2 ** 32
        return conj(str_encodable(st, v), lt(blen(st, str_utf8(st, v)), limit))
    if wire_type == 'table':
        if v is None or isinstance(v, dict):
            return True
        return z3.Or(z3.Not(_nonempty(v)), table_encodable(v.t, sym.B(legacy)))
    if wire_type == 'timestamp':
        return in_range(time_seconds(v), 0, 2 ** 64 - 1)
    raise EngineError('field_ok: %s' % wire_type)


def time_seconds(v):
    """Whole seconds since the epoch of a time value: symbolic (dt_seconds) or concrete (replay, bounded stand-in)."""
    import datetime as _dt
    import time as _time
    if isinstance(v, (_dt.datetime, _time.struct_time)):
        from spec import ref
        s = ref.seconds(v)
        if isinstance(v, _dt.datetime) and s < 0 and v.microsecond:
            s += 1          # int() truncates toward zero: a pre-epoch fraction rounds up (I2)
        return s
    return SInt(dt_seconds(v.t))


def field_bytes(st, wire_type, v, legacy):
    if wire_type in INT_RANGES:
        lo, hi, width, signed = INT_RANGES[wire_type]
        return (sbe if signed else be)(st, width, v)
    if wire_type == 'shortstr':
        return short_string(st, v)
    if wire_type == 'longstr':
        return long_string(st, v)
    if wire_type == 'table':
        if v is None or (isinstance(v, dict) and not v):
            return b'\x00\x00\x00\x00'
        if not st.branch(_nonempty(v), 'spec:table-nonempty'):
            return b'\x00\x00\x00\x00'
        return table_bytes(st, v, legacy)
    if wire_type == 'timestamp':
        return be(st, 8, time_seconds(v))
    raise EngineError('field_bytes: %s' % wire_type)


def args_wire(st, fields, values, legacy):
    """Method arguments in specification order."""
    parts = []
    bits = []

    def flush():
        if bits:
            parts.append(be(st, 1, bits_octet(st, list(bits))))
            del bits[:]
    for name, wire_type in fields:
        if wire_type == 'bit':
            bits.append(values[name])
            if len(bits) == 8:
                flush()
        else:
            flush()
            parts.append(field_bytes(st, wire_type, values[name], legacy))
    flush()
    return cat(st, *parts) if parts else b''


# ---------------------------------------------------------------- reference decoder for method arguments
def parse_table(st, rest):
    """Reference reading of a field table at the head of `rest`:
    -> (consumed, value, condition) or None when the octets are not there."""
    a = peek(st, rest, 4)
    if a is None:
        return None
    n = uint(a)
    total = mk_int(sym.I(n) + 4)
    if not st.branch(sym.I(blen(st, rest)) >= sym.I(total), 'spec:table-present'):
        return None
    if isinstance(n, int):
        if n == 0:
            return 4, {}, True
    elif st.branch(sym.I(n) == 0, 'spec:table-empty'):
        return 4, {}, True
    w = st.name_rope(st.to_rope(sub(st, rest, 0, total)).segs, 'wtable')
    return total, sym.SOpaque('dict', dec_table(w.t)), wf_table(w.t)


def args_parse(st, fields, data):
    """Reference decoder for method arguments (grammar 4.2.5), for *any* octet
    string: -> (values, consumed, condition) or None when the octets run out.
    `condition` collects what cannot be decided structurally (UTF-8 validity of
    short strings, grammar validity of embedded tables)."""
    from pyvc.dsl import conj
    values = {}
    conds = []
    box = {'rest': data, 'consumed': 0, 'bitpos': 0, 'octet': None}

    def advance(k):
        box['rest'] = sub(st, box['rest'], k, None)
        box['consumed'] = mk_int(sym.I(box['consumed']) + sym.I(k))

    def end_bits():
        if box['octet'] is not None:
            advance(1)
        box['bitpos'], box['octet'] = 0, None

    for name, wire_type in fields:
        rest = box['rest']
        if wire_type == 'bit':
            if box['octet'] is None or box['bitpos'] == 8:
                end_bits()
                a = peek(st, box['rest'], 1)
                if a is None:
                    return None
                box['octet'] = a[0]
            o = box['octet']
            if isinstance(o, int):
                values[name] = bool(o & (1 << box['bitpos']))
            else:
                values[name] = sym.mk_bool(st.bits_of(o, 8)[box['bitpos']])
            box['bitpos'] += 1
            continue
        end_bits()
        rest = box['rest']
        if wire_type in INT_RANGES:
            lo, hi, width, signed = INT_RANGES[wire_type]
            a = peek(st, rest, width)
            if a is None:
                return None
            values[name] = (st.unpack_sint if signed else st.unpack_uint)(list(a))
            advance(width)
        elif wire_type in ('shortstr', 'longstr'):
            width = 1 if wire_type == 'shortstr' else 4
            a = peek(st, rest, width)
            if a is None:
                return None
            n = uint(a)
            total = mk_int(sym.I(n) + width)
            if not st.branch(sym.I(blen(st, rest)) >= sym.I(total), 'spec:string-present'):
                return None
            k = sub(st, rest, width, total)
            ok = utf8_ok(st, k)
            if wire_type == 'shortstr':
                if ok is False:
                    return None             # not a short string at all
                conds.append(ok)
                if ok is not True and not st.can(sym.B(ok)):
                    return None             # already known not to be UTF-8 on this path
                values[name] = utf8_str(st, k)
            else:
                if ok is True or (ok is not False and st.branch(ok, 'spec:longstr-is-utf8')):
                    values[name] = utf8_str(st, k)
                else:
                    values[name] = k        # not UTF-8: the raw octets
            advance(total)
        elif wire_type == 'timestamp':
            a = peek(st, rest, 8)
            if a is None:
                return None
            ts = sym.I(uint(a))
            # A5 (library contract): datetime.fromtimestamp represents every instant up to 9999-12-31T23:59:59Z
            st.assume(z3.Implies(z3.And(ts >= 0, ts <= 253402300799), dt_representable(ts)))
            st.assume(z3.Implies(ts > 253402300799999, z3.Not(dt_representable(ts))))     # past 9999 even when read as milliseconds
            conds.append(dt_representable(ts))
            values[name] = sym.SOpaque('datetime_aware', z3.If(ts <= 0xFFFFFFFF, dt_of_seconds(ts), dt_of_millis(ts)))
            advance(8)
        elif wire_type == 'table':
            r = parse_table(st, rest)
            if r is None:
                return None
            total, value, cond = r
            conds.append(cond)
            if cond is not True and not st.can(sym.B(cond)):
                return None
            values[name] = value
            advance(total)
        else:
            raise EngineError('args_parse: %s' % wire_type)
    end_bits()
    return values, box['consumed'], conj(*conds)


# ---------------------------------------------------------------- content properties (AMQP 0-9-1 4.2.6.1)
prop_chunk = z3.Function('prop_chunk', z3.IntSort(), Obj, sym.BytesS)   # octets of property j of property set `ident`


def props_flags(present, bits):
    """Property flags: first property in the most significant bit (15), down to bit 2."""
    from pyvc.dsl import _t
    total = 0
    terms = []
    for p, bit in zip(present, bits):
        p = _t(p)
        if p is True:
            total += 1 << bit
        elif p is not False:
            terms.append(z3.If(p, 1 << bit, 0))
    if not terms:
        return total
    return mk_int(z3.Sum([z3.IntVal(total)] + terms))


def field_len(st, wire_type, v, legacy):
    """Length of field_bytes(...) as a term, without building the octets."""
    if v is None:
        return 0
    if wire_type in INT_RANGES:
        return INT_RANGES[wire_type][2]
    if wire_type == 'timestamp':
        return 8
    if wire_type in ('shortstr', 'longstr') and sym.is_strlike(v):
        k = 1 if wire_type == 'shortstr' else 4
        if isinstance(v, str):
            return k + len(v.encode('utf-8', 'surrogatepass'))
        return k + sym.blen(sym.utf8(st.str_term(v)))
    if wire_type == 'table' and isinstance(v, sym.SOpaque):
        return z3.If(_nonempty(v), sym.blen(enc_table(v.t, sym.B(legacy))), 4)
    if wire_type == 'table' and isinstance(v, dict) and not v:
        return 4
    return None


def props_chunks(st, ident, present, types, values, legacy, first=0, last=None):
    """One conditional chunk per property: its encoding when present, nothing otherwise."""
    out = []
    for j, (p, t, v) in enumerate(zip(present, types, values)):
        if j < first or (last is not None and j >= last):
            continue
        out.append(st.cond_chunk(prop_chunk(z3.IntVal(j), ident), p if isinstance(p, bool) else sym.B(p),
                                 (lambda t=t, v=v: field_bytes(st, t, v, legacy)), length=field_len(st, t, v, legacy)))
    return out


def props_flag_octets(st, present, bits):
    """The flag word as two octets defined bit by bit (bit 0, the continuation bit, and the unused bit 1 are clear)."""
    from pyvc.dsl import _t
    word = [False] * 16
    for p, bit in zip(present, bits):
        word[bit] = _t(p)
    return [st.byte_from_bits(word[8:16], 'flags_hi'), st.byte_from_bits(word[0:8], 'flags_lo')]


def props_wire(st, ident, present, bits, types, values, legacy):
    return cat(st, st.mk_bytes(props_flag_octets(st, present, bits)),
               SBytes(props_chunks(st, ident, present, types, values, legacy)))


NORM_AXIOMS = ('norm_value preserves emptiness and encodability of a table and enc_table(norm_value(d)) == enc_table(d); '
               'dt_seconds(dt_of_seconds(s)) == s  (Enc(Norm(v)) == Enc(v): decided in the C03 cone / library contract A5)')


def norm_table(st, d, legacy):
    """norm_value(d) as a dict value, with the C03 facts about it."""
    from pyvc.contract import obj_nonempty
    n = norm_value(d.t)
    lg = sym.B(legacy)
    st.assume(z3.And(obj_nonempty(n) == obj_nonempty(d.t), table_encodable(n, lg) == table_encodable(d.t, lg),
                     enc_table(n, lg) == enc_table(d.t, lg)))
    return sym.SOpaque('dict', n, {'truthy': obj_nonempty(n)})


def norm_time(st, v):
    s = dt_seconds(v.t)
    n = dt_of_seconds(s)
    st.assume(dt_seconds(n) == s)
    return sym.SOpaque('datetime_aware', n)


# ---------------------------------------------------------------- field tables and arrays (grammar 4.2.5.5 + RabbitMQ errata)
# Abstract sequences (python lists / sorted dict entries / wire entry lists): uninterpreted, unfolded one step at a time.
seq_nil = z3.Function('seq_nil', Obj, z3.BoolSort())
seq_head = z3.Function('seq_head', Obj, Obj)              # the element (list) / the value (entry list)
seq_key = z3.Function('seq_key', Obj, sym.StrS)           # the key of the first entry (entry lists)
seq_tail = z3.Function('seq_tail', Obj, Obj)
seq_len = z3.Function('seq_len', Obj, z3.IntSort())
list_items = z3.Function('list_items', Obj, Obj)          # python list -> its element sequence
dict_sorted = z3.Function('dict_sorted', Obj, Obj)        # dict -> entries in ascending key order (A4: sorted(d.items()))
dict_inserted = z3.Function('dict_inserted', Obj, Obj)    # dict -> entries in insertion order (what .items() yields)
enc_value = z3.Function('enc_value', Obj, z3.BoolSort(), sym.BytesS)      # tag octet + value
value_ok = z3.Function('value_ok', Obj, z3.BoolSort(), z3.BoolSort())      # encodable field value
enc_items = z3.Function('enc_items', Obj, z3.BoolSort(), sym.BytesS)      # concatenated encodings of a value sequence
items_ok = z3.Function('items_ok', Obj, z3.BoolSort(), z3.BoolSort())
enc_entries = z3.Function('enc_entries', Obj, z3.BoolSort(), sym.BytesS)  # (short-string name, value)* of an entry sequence
entries_ok = z3.Function('entries_ok', Obj, z3.BoolSort(), z3.BoolSort())
key_ok = z3.Function('key_ok', sym.StrS, z3.BoolSort())                    # name encodable as a short string after truncation
KEY_MAX = 128


def seq_facts(st, s):
    key = ('seq', s.get_id())
    if key in st.facts_done:
        return
    st.facts_done.add(key)
    st.keep.append(s)
    st.assume(z3.And(seq_len(s) >= 0, seq_nil(s) == (seq_len(s) == 0),
                     z3.Implies(z3.Not(seq_nil(s)), seq_len(seq_tail(s)) == seq_len(s) - 1)))


def trunc_key(st, k):
    """Field names longer than 128 characters are truncated (documented, logged)."""
    if isinstance(k, str):
        return k[:KEY_MAX]
    return st.str_slice_prefix(k, KEY_MAX) if not st.must(sym.nchars(st.str_term(k)) <= KEY_MAX) else k


def unfold_entries(st, s, legacy):
    """enc_entries(s) for a non-empty s: name, value, then the rest (one unfolding instance)."""
    lg = sym.B(legacy)
    seq_facts(st, s)
    seq_facts(st, seq_tail(s))
    whole = st.new_chunk(term=enc_entries(s, lg))
    key = sym.SStr(seq_key(s))
    st.str_facts(key.t)
    k128 = trunc_key_term(st, key)
    name_ok = key_ok(seq_key(s))
    st.assume(name_ok == z3.And(sym.encodable(k128.t if isinstance(k128, sym.SStr) else st.str_term(k128)),
                                sym.blen(sym.utf8(st.str_term(k128))) <= 255))
    st.assume(entries_ok(s, lg) == z3.And(name_ok, value_ok(seq_head(s), lg), entries_ok(seq_tail(s), lg)))
    return whole, k128


def trunc_key_term(st, key):
    """The truncated name as a Str term without branching: prefix when longer than 128 characters."""
    t = st.str_term(key)
    p = sym.str_prefix(t, z3.IntVal(KEY_MAX))
    st.str_facts(p)
    st.assume(z3.And(z3.Implies(sym.nchars(t) <= KEY_MAX, p == t),
                     z3.Implies(sym.nchars(t) > KEY_MAX, sym.nchars(p) == KEY_MAX),
                     z3.Implies(sym.encodable(t), sym.encodable(p)), sym.blen(sym.utf8(p)) <= sym.blen(sym.utf8(t))))
    return sym.SStr(p)


def refine_entries(st, s, legacy):
    """Refine the chunk enc_entries(s) of a non-empty s into [name][value][rest]; returns the three parts."""
    lg = sym.B(legacy)
    whole, k128 = unfold_entries(st, s, legacy)
    if whole.key() not in st.refine:
        name = short_string(st, k128)
        val = st.new_chunk(term=enc_value(seq_head(s), lg))
        rest = st.new_chunk(term=enc_entries(seq_tail(s), lg))
        st.refine_chunk(whole, list(st.to_rope(name).segs) + [val, rest])
    return whole


def refine_items(st, s, legacy):
    lg = sym.B(legacy)
    seq_facts(st, s)
    seq_facts(st, seq_tail(s))
    whole = st.new_chunk(term=enc_items(s, lg))
    st.assume(items_ok(s, lg) == z3.And(value_ok(seq_head(s), lg), items_ok(seq_tail(s), lg)))
    if whole.key() not in st.refine:
        st.refine_chunk(whole, [st.new_chunk(term=enc_value(seq_head(s), lg)), st.new_chunk(term=enc_items(seq_tail(s), lg))])
    return whole


def nil_facts(st, s, legacy):
    """An empty sequence encodes to nothing and is trivially encodable."""
    lg = sym.B(legacy)
    seq_facts(st, s)
    for f, okf in ((enc_items, items_ok), (enc_entries, entries_ok)):
        c = st.new_chunk(term=f(s, lg))
        st.assume(z3.And(z3.Implies(seq_nil(s), z3.And(c.len == 0, okf(s, lg))),
                         z3.Implies(z3.Not(seq_nil(s)), c.len >= 1)))     # every value / entry has at least its tag octet


ENC_ARRAY_UNFOLD = 'enc_array(l) == be4(len X) ++ X with X == enc_items(list_items(l)); array_encodable(l) == items_ok(...) and len X < 2^32'


def array_bytes(st, l, legacy):
    """The encoding of a python list as a field array: 4-octet length, then the values."""
    lg = sym.B(legacy)
    t = enc_array(l.t, lg)
    c = st.new_chunk(term=t)
    key = ('array_bytes', t.get_id())
    if key not in st.facts_done:
        st.facts_done.add(key)
        items = list_items(l.t)
        seq_facts(st, items)
        nil_facts(st, items, legacy)
        body = st.new_chunk(term=enc_items(items, lg))
        ls = [st.new_byte('alen') for _ in range(4)]
        st.refine_chunk(c, ls + [body])
        st.assume(z3.And(sym.I(uint(ls)) == body.len, array_encodable(l.t, lg) == z3.And(items_ok(items, lg), body.len < 2 ** 32)))
    return SBytes([c])


def table_unfold(st, d, legacy):
    """enc_table(d) == be4(len X) ++ X with X == enc_entries(dict_sorted(d)) (sorted name/type/value triples)."""
    lg = sym.B(legacy)
    t = enc_table(d.t, lg)
    c = st.new_chunk(term=t)
    key = ('table_unfold', t.get_id())
    if key not in st.facts_done:
        st.facts_done.add(key)
        es = dict_sorted(d.t)
        seq_facts(st, es)
        nil_facts(st, es, legacy)
        from pyvc.contract import obj_nonempty
        st.assume(obj_nonempty(d.t) == z3.Not(seq_nil(es)))
        body = st.new_chunk(term=enc_entries(es, lg))
        if c.key() in st.refine:      # table_bytes was here first: [4 length octets][tbody]
            segs = st.refine[c.key()]
            st.refine_chunk(segs[4], [body])
            ls = segs[:4]
        else:
            ls = [st.new_byte('tlen') for _ in range(4)]
            st.refine_chunk(c, ls + [body])
            st.facts_done.add(('table_bytes', t.get_id()))
        st.assume(z3.And(sym.I(uint(ls)) == body.len,
                         table_encodable(d.t, lg) == z3.And(entries_ok(es, lg), body.len < 2 ** 32)))
    return SBytes([c])


# ---------------------------------------------------------------- decimals (grammar: scale octet + signed 32-bit unscaled value)
dec_scale = z3.Function('dec_scale', Obj, z3.IntSort())          # number of decimal places (negated exponent, >= 0)
dec_unscaled = z3.Function('dec_unscaled', Obj, z3.IntSort())    # the unscaled integer: value == unscaled / 10^scale
dec_finite = z3.Function('dec_finite', Obj, z3.BoolSort())
dec_exp = z3.Function('dec_exp', Obj, z3.IntSort())              # as_tuple().exponent of a finite decimal
dec_coeff = z3.Function('dec_coeff', Obj, z3.IntSort())          # signed coefficient: value == coeff * 10^exp
dec_intval = z3.Function('dec_intval', Obj, z3.IntSort())        # int(value) when the exponent is >= 0 (A5)


def dec_facts(st, t):
    """How (scale, unscaled) of the grammar relate to Python's (coefficient, exponent) (A5)."""
    key = ('dec', t.get_id())
    if key in st.facts_done:
        return
    st.facts_done.add(key)
    st.keep.append(t)
    st.assume(z3.Implies(dec_finite(t), z3.And(
        z3.Implies(dec_exp(t) < 0, z3.And(dec_scale(t) == -dec_exp(t), dec_unscaled(t) == dec_coeff(t))),
        z3.Implies(dec_exp(t) >= 0, z3.And(dec_scale(t) == 0, dec_unscaled(t) == dec_intval(t))))))


def mk_decimal(unscaled, scale):
    """The decimal with this unscaled value and number of places (concrete: a real Decimal)."""
    if isinstance(unscaled, int) and isinstance(scale, int):
        import decimal
        return decimal.Decimal(unscaled).scaleb(-scale)
    return sym.SOpaque('decimal', decimal_of(sym.I(unscaled), sym.I(scale)))


def dec_parts(v):
    """(finite, scale, unscaled) of a decimal: value == unscaled / 10^scale exactly, scale >= 0."""
    import decimal
    if isinstance(v, decimal.Decimal):
        if not v.is_finite():
            return False, 0, 0
        sign, digits, exp = v.as_tuple()
        n = int(''.join(map(str, digits)) or '0') * (-1 if sign else 1)
        if exp >= 0:
            return True, 0, n * 10 ** exp
        return True, -exp, n
    return dec_finite(v.t), SInt(dec_scale(v.t)), SInt(dec_unscaled(v.t))


def decimal_ok(v):
    from pyvc.dsl import conj, in_range
    if isinstance(v, z3.ExprRef):          # a raw Obj term
        v = sym.SOpaque('decimal', v)
    fin, scale, unscaled = dec_parts(v)
    return conj(fin, in_range(scale, 0, 255), in_range(unscaled, -2 ** 31, 2 ** 31 - 1))


def decimal_bytes(st, v):
    fin, scale, unscaled = dec_parts(v)
    return cat(st, be(st, 1, scale), sbe(st, 4, unscaled))


# ---------------------------------------------------------------- reference decoder for field values (19 type tags)
wf_value = z3.Function('wf_value', sym.BytesS, z3.BoolSort())       # a grammar-valid field value (tag + value)
val_of = z3.Function('val_of', sym.BytesS, Obj)                      # the python value it denotes
float_obj = z3.Function('float_obj', sym.FloatS, Obj)


def parse_array(st, rest):
    a = peek(st, rest, 4)
    if a is None:
        return None
    n = uint(a)
    total = mk_int(sym.I(n) + 4)
    if not st.branch(sym.I(blen(st, rest)) >= sym.I(total), 'spec:array-present'):
        return None
    if isinstance(n, int):
        if n == 0:
            return 4, [], True
    elif st.branch(sym.I(n) == 0, 'spec:array-empty'):
        return 4, [], True
    w = st.name_rope(st.to_rope(sub(st, rest, 0, total)).segs, 'warray')
    return total, sym.SOpaque('list', dec_array(w.t)), wf_array(w.t)


FIXED_TAGS = {   # tag -> (width, signed, python type)
    b'b': (1, True), b'B': (1, False), b's': (2, True), b'u': (2, False), b'I': (4, True), b'i': (4, False),
    b'l': (8, True), b'L': (8, True),
}


def parse_value(st, rope):
    """Reference reading of one field value at the head of `rope` (any octets):
    -> (value, consumed, condition) | None (octets missing) | 'unknown-tag'."""
    from pyvc import lib
    a = peek(st, rope, 1)
    if a is None:
        return None
    tag = a[0]
    rest = sub(st, rope, 1, None)
    if not isinstance(tag, int):
        for t in sorted(set(list(b'tbBsuIilLfdDSATFVx') + [0])):
            if st.branch(sym.I(tag) == t, 'spec:tag-%02x' % t):
                tag = t
                break
        else:
            return 'unknown-tag'
    tb = bytes([tag])
    if tb in FIXED_TAGS:
        width, signed = FIXED_TAGS[tb]
        b = peek(st, rest, width)
        if b is None:
            return None
        return st.from_bytes(list(b), signed), 1 + width, True
    if tb == b't':
        b = peek(st, rest, 1)
        if b is None:
            return None
        v = (b[0] != 0) if isinstance(b[0], int) else sym.mk_bool(sym.I(b[0]) != 0)
        return v, 2, True
    if tb in (b'f', b'd'):
        width = 4 if tb == b'f' else 8
        b = peek(st, rest, width)
        if b is None:
            return None
        if all(isinstance(x, int) for x in b):
            import struct
            return struct.unpack('>f' if width == 4 else '>d', bytes(b))[0], 1 + width, True
        nm = st.name_rope(list(b), 'fbytes')
        return sym.SFloat((lib.f32_of if width == 4 else lib.f64_of)(nm.t)), 1 + width, True
    if tb == b'D':
        b = peek(st, rest, 5)
        if b is None:
            return None
        return mk_decimal(st.from_bytes(list(b[1:5]), True), uint(b[0:1])), 6, True
    if tb in (b'S', b'x'):
        b = peek(st, rest, 4)
        if b is None:
            return None
        n = uint(b)
        total = mk_int(sym.I(n) + 4)
        if not st.branch(sym.I(blen(st, rest)) >= sym.I(total), 'spec:string-present'):
            return None
        k = sub(st, rest, 4, total)
        if tb == b'x':
            return st.mk_bytes(st.to_rope(k).segs, True), mk_int(sym.I(total) + 1), True
        ok = utf8_ok(st, k)
        if ok is True or (ok is not False and st.branch(ok, 'spec:longstr-is-utf8')):
            return utf8_str(st, k), mk_int(sym.I(total) + 1), True
        return k, mk_int(sym.I(total) + 1), True
    if tb == b'T':
        b = peek(st, rest, 8)
        if b is None:
            return None
        ts = sym.I(uint(b))
        st.assume(z3.Implies(z3.And(ts >= 0, ts <= 253402300799), dt_representable(ts)))
        st.assume(z3.Implies(ts > 253402300799999, z3.Not(dt_representable(ts))))
        return (sym.SOpaque('datetime_aware', z3.If(ts <= 0xFFFFFFFF, dt_of_seconds(ts), dt_of_millis(ts))), 9,
                dt_representable(ts))
    if tb == b'F':
        r = parse_table(st, rest)
        if r is None:
            return None
        total, value, cond = r
        return value, mk_int(sym.I(total) + 1), cond
    if tb == b'A':
        r = parse_array(st, rest)
        if r is None:
            return None
        total, value, cond = r
        return value, mk_int(sym.I(total) + 1), cond
    if tb in (b'V', b'\x00'):
        return (None, 1, True)
    return 'unknown-tag'


# ---------------------------------------------------------------- wire-side tables / arrays as entry sequences (grammar side)
w_items = z3.Function('w_items', sym.BytesS, Obj)            # a grammar-valid array encoding -> its value sequence
w_entries = z3.Function('w_entries', sym.BytesS, Obj)        # a grammar-valid table encoding -> its entry sequence
w_val = z3.Function('w_val', Obj, sym.BytesS)                # first element / entry of a wire sequence: its value octets (tag + value)
w_name = z3.Function('w_name', Obj, sym.BytesS)              # first entry: the octets of its name (valid UTF-8, at most 255)
w_items_bytes = z3.Function('w_items_bytes', Obj, sym.BytesS)
w_entries_bytes = z3.Function('w_entries_bytes', Obj, sym.BytesS)
dict_set = z3.Function('dict_set', Obj, sym.StrS, Obj, Obj)
list_snoc = z3.Function('list_snoc', Obj, Obj, Obj)
apply_entries = z3.Function('apply_entries', Obj, Obj, Obj)  # fold: entries applied (in order) to a dict
append_items = z3.Function('append_items', Obj, Obj, Obj)    # fold: values appended (in order) to a list
EMPTY_LIST = z3.Const('empty_list', Obj)
value_obj = z3.Function('value_obj', sym.BytesS, Obj)        # python value of a wire value, as an abstract object


def w_unfold_items(st, ws):
    """WI(ws) for non-empty ws == value octets ++ WI(tail); appended(ws, L) unfolds one step."""
    seq_facts(st, ws)
    seq_facts(st, seq_tail(ws))
    whole = st.new_chunk(term=w_items_bytes(ws))
    v = st.new_chunk(term=w_val(ws))
    st.assume(z3.And(wf_value(v.t), v.len >= 1))
    if whole.key() not in st.refine:
        st.refine_chunk(whole, [v, st.new_chunk(term=w_items_bytes(seq_tail(ws)))])
    return v


def w_unfold_entries(st, ws):
    seq_facts(st, ws)
    seq_facts(st, seq_tail(ws))
    whole = st.new_chunk(term=w_entries_bytes(ws))
    k = st.new_chunk(term=w_name(ws))
    v = st.new_chunk(term=w_val(ws))
    klen = st.new_byte('klen')
    st.assume(z3.And(sym.utf8_valid(k.t), k.len == klen, wf_value(v.t), v.len >= 1))
    if whole.key() not in st.refine:
        st.refine_chunk(whole, [klen, k, v, st.new_chunk(term=w_entries_bytes(seq_tail(ws)))])
    return k, v


def w_nil_facts(st, ws):
    seq_facts(st, ws)
    for f in (w_items_bytes, w_entries_bytes):
        c = st.new_chunk(term=f(ws))
        st.assume(z3.And(z3.Implies(seq_nil(ws), c.len == 0), z3.Implies(z3.Not(seq_nil(ws)), c.len >= 1)))


def wf_table_unfold(st, w):
    """A grammar-valid table W == be4(L) ++ WE(w_entries(W)), L == len WE; dec_table(W) == apply_entries(w_entries(W), {})."""
    c = st.new_chunk(term=w)
    key = ('wf_table', w.get_id())
    if key not in st.facts_done:
        st.facts_done.add(key)
        ws = w_entries(w)
        w_nil_facts(st, ws)
        body = st.new_chunk(term=w_entries_bytes(ws))
        if c.key() not in st.refine:
            ls = [st.new_byte('tlen') for _ in range(4)]
            st.refine_chunk(c, ls + [body])
        else:
            ls = st.expand([c])[:4]
            if st.must(body.len == c.len - 4):
                pass
        st.assume(z3.And(sym.I(uint(ls)) == body.len, dec_table(w) == apply_entries(ws, EMPTY_DICT)))
    return c


def wf_array_unfold(st, w):
    c = st.new_chunk(term=w)
    key = ('wf_array', w.get_id())
    if key not in st.facts_done:
        st.facts_done.add(key)
        ws = w_items(w)
        w_nil_facts(st, ws)
        body = st.new_chunk(term=w_items_bytes(ws))
        ls = [st.new_byte('alen') for _ in range(4)]
        if c.key() not in st.refine:
            st.refine_chunk(c, ls + [body])
        st.assume(z3.And(sym.I(uint(ls)) == body.len, dec_array(w) == append_items(ws, EMPTY_LIST)))
    return c


# ---------------------------------------------------------------- time values (assumed library facts A5; C15)
dt_as_utc = z3.Function('dt_as_utc', Obj, Obj)                 # naive value with tzinfo=UTC attached
dt_local_wall = z3.Function('dt_local_wall', Obj, z3.IntSort(), Obj)   # an instant shown as host-local wall clock
dt_fields = z3.Function('dt_fields', Obj, Obj)                 # struct_time of the wall-clock fields
dt_utcfields = z3.Function('dt_utcfields', Obj, Obj)           # struct_time of the UTC fields
dt_utcoffset = z3.Function('dt_utcoffset', Obj, z3.IntSort())  # UTC offset (seconds) of an aware value
