"""spec.wire -- the AMQP 0-9-1 wire grammar, written from the specification
(frame grammar 4.2.x, field-table grammar, RabbitMQ errata), *not* from the
code.  Every function accepts concrete python values or pyvc symbolic values
and is therefore interpreted twice: symbolically inside obligations and
concretely as the reference codec used by replay and the bounded stand-in.
Never imports pamqp.
"""
import z3

from pyvc import sym
from pyvc.sym import SInt, SBool, SBytes, SStr, Chunk, I, EngineError, mk_int


def _checked_range(st, n, lo, hi, what):
    if isinstance(n, (int, bool)):
        if not lo <= int(n) <= hi:
            raise EngineError('spec: %s of out-of-range value %r' % (what, n))
        return
    t = I(n)
    if not st.must(z3.And(t >= lo, t <= hi)):
        raise EngineError('spec: %s of a value not known to be in range (guard too weak?)' % what)


def be(st, width, n):
    """Unsigned big-endian, `width` octets.  The caller's guard must put n in range."""
    _checked_range(st, n, 0, 256 ** width - 1, 'be%d' % width)
    if isinstance(n, (int, bool)):
        return int(n).to_bytes(width, 'big')
    return SBytes(st.pack_uint(I(n), width))


def sbe(st, width, n):
    """Two's-complement big-endian, `width` octets."""
    _checked_range(st, n, -(256 ** width) // 2, 256 ** width // 2 - 1, 'sbe%d' % width)
    if isinstance(n, (int, bool)):
        return int(n).to_bytes(width, 'big', signed=True)
    return SBytes(st.pack_sint(I(n), width))


def cat(st, *parts):
    segs = []
    for p in parts:
        segs.extend(st.to_rope(p).segs)
    return st.mk_bytes(segs)


def ube(st, atoms):
    return st.unpack_uint(list(atoms))


# ---------------------------------------------------------------- table integers (C11)
# "the first type that fits in the documented order signed 8, signed 16,
#  unsigned 16, signed 32, unsigned 32, signed 64 bits (tags b, s, u, I, i, l)";
# legacy: only b, s, I, l.
LADDER = [
    ('b', -2 ** 7, 2 ** 7 - 1, 1, True),
    ('s', -2 ** 15, 2 ** 15 - 1, 2, True),
    ('u', 0, 2 ** 16 - 1, 2, False),
    ('I', -2 ** 31, 2 ** 31 - 1, 4, True),
    ('i', 0, 2 ** 32 - 1, 4, False),
    ('l', -2 ** 63, 2 ** 63 - 1, 8, True),
]
LEGACY_TAGS = ('b', 's', 'I', 'l')
S64 = (-2 ** 63, 2 ** 63 - 1)


def ladder(legacy):
    return [r for r in LADDER if (not legacy) or r[0] in LEGACY_TAGS]


def tag_int_rung(st, n, rung):
    tag, lo, hi, width, signed = rung
    body = sbe(st, width, n) if signed else be(st, width, n)
    return cat(st, tag.encode('ascii'), body)


def tag_int_concrete(n, legacy):
    for tag, lo, hi, width, signed in ladder(legacy):
        if lo <= n <= hi:
            return tag.encode('ascii') + int(n).to_bytes(width, 'big', signed=signed)
    return None
