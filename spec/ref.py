"""spec.ref -- a small *concrete* reference codec for field values, tables and
arrays, written from the grammar (AMQP 0-9-1 4.2.5.5 + RabbitMQ errata).  Never
imports pamqp.  Used (a) to generate grammar-valid and fault-injected inputs for
the bounded stand-in, (b) to exercise the container round-trip axiom of C03
concretely, (c) as the independent reference in replays."""
import datetime
import decimal
import math
import struct
import time

UTC = datetime.timezone.utc
LADDER = [(b'b', '>b', -2 ** 7, 2 ** 7 - 1), (b's', '>h', -2 ** 15, 2 ** 15 - 1), (b'u', '>H', 0, 2 ** 16 - 1),
          (b'I', '>i', -2 ** 31, 2 ** 31 - 1), (b'i', '>I', 0, 2 ** 32 - 1), (b'l', '>q', -2 ** 63, 2 ** 63 - 1)]


class Refused(Exception):
    pass


def seconds(v):
    if isinstance(v, datetime.datetime):
        if v.tzinfo is None or v.utcoffset() is None:
            v = v.replace(tzinfo=UTC)
        delta = v - datetime.datetime(1970, 1, 1, tzinfo=UTC)
        return delta.days * 86400 + delta.seconds      # whole seconds, toward minus infinity for pre-epoch
    import calendar
    return calendar.timegm(v)


def enc_value(v, legacy=False):
    if isinstance(v, bool):
        return b't' + bytes([int(v)])
    if isinstance(v, int):
        for tag, fmt, lo, hi in LADDER:
            if legacy and tag in (b'u', b'i'):
                continue
            if lo <= v <= hi:
                return tag + struct.pack(fmt, v)
        raise Refused('integer outside s64')
    if isinstance(v, decimal.Decimal):
        if not v.is_finite():
            raise Refused('non-finite decimal')
        sign, digits, exp = v.as_tuple()
        n = int(''.join(map(str, digits)) or '0') * (-1 if sign else 1)
        scale, unscaled = (0, n * 10 ** exp) if exp >= 0 else (-exp, n)
        if not (0 <= scale <= 255 and -2 ** 31 <= unscaled < 2 ** 31):
            raise Refused('decimal out of range')
        return b'D' + bytes([scale]) + struct.pack('>i', unscaled)
    if isinstance(v, float):
        try:
            return b'f' + struct.pack('>f', v)
        except OverflowError:
            raise Refused('float beyond single range')
    if isinstance(v, str):
        try:
            u = v.encode('utf-8')
        except UnicodeEncodeError:
            raise Refused('not utf-8 encodable')
        return b'S' + struct.pack('>I', len(u)) + u
    if isinstance(v, (datetime.datetime, time.struct_time)):
        s = seconds(v)
        if not 0 <= s < 2 ** 64:
            raise Refused('timestamp out of range')
        return b'T' + struct.pack('>Q', s)
    if isinstance(v, dict):
        return b'F' + enc_table(v, legacy)
    if isinstance(v, list):
        body = b''.join(enc_value(x, legacy) for x in v)
        return b'A' + struct.pack('>I', len(body)) + body
    if isinstance(v, bytearray):
        return b'x' + struct.pack('>I', len(v)) + bytes(v)
    if v is None:
        return b'V'
    raise Refused('unsupported type %s' % type(v).__name__)


def enc_table(d, legacy=False):
    if d is None:
        return b'\x00' * 4
    body = b''
    for k in sorted(d):
        if not isinstance(k, str):
            raise Refused('non-string key')
        name = k[:128].encode('utf-8')
        if len(name) > 255:
            raise Refused('name too long')
        body += bytes([len(name)]) + name + enc_value(d[k], legacy)
    return struct.pack('>I', len(body)) + body


class Malformed(Exception):
    pass


def _need(b, n):
    if len(b) < n:
        raise Malformed('octets missing')


def dec_value(b):
    """-> (value, consumed)"""
    _need(b, 1)
    tag, r = b[0:1], b[1:]
    fixed = {b'b': '>b', b'B': '>B', b's': '>h', b'u': '>H', b'I': '>i', b'i': '>I', b'l': '>q', b'L': '>q',
             b'f': '>f', b'd': '>d'}
    if tag in fixed:
        n = struct.calcsize(fixed[tag])
        _need(r, n)
        return struct.unpack(fixed[tag], r[:n])[0], 1 + n
    if tag == b't':
        _need(r, 1)
        return r[0] != 0, 2
    if tag == b'D':
        _need(r, 5)
        return decimal.Decimal(struct.unpack('>i', r[1:5])[0]).scaleb(-r[0]), 6
    if tag in (b'S', b'x'):
        _need(r, 4)
        n = struct.unpack('>I', r[:4])[0]
        _need(r, 4 + n)
        raw = r[4:4 + n]
        if tag == b'x':
            return bytearray(raw), 5 + n
        try:
            return raw.decode('utf-8'), 5 + n
        except UnicodeDecodeError:
            return raw, 5 + n
    if tag == b'T':
        _need(r, 8)
        ts = struct.unpack('>Q', r[:8])[0]
        if ts > 0xFFFFFFFF:
            if ts > 253402300799999:
                raise Malformed('timestamp beyond datetime')
            return datetime.datetime(1970, 1, 1, tzinfo=UTC) + datetime.timedelta(milliseconds=ts), 9
        return datetime.datetime(1970, 1, 1, tzinfo=UTC) + datetime.timedelta(seconds=ts), 9
    if tag == b'F':
        d, n = dec_table(r)
        return d, 1 + n
    if tag == b'A':
        _need(r, 4)
        n = struct.unpack('>I', r[:4])[0]
        _need(r, 4 + n)
        body, out, off = r[4:4 + n], [], 0
        while off < len(body):
            v, k = dec_value(body[off:])
            out.append(v)
            off += k
        return out, 5 + n
    if tag in (b'V', b'\x00'):
        return None, 1
    raise Malformed('unknown tag %r' % tag)


def dec_table(b):
    _need(b, 4)
    n = struct.unpack('>I', b[:4])[0]
    _need(b, 4 + n)
    body, out, off = b[4:4 + n], {}, 0
    while off < len(body):
        kl = body[off]
        _need(body[off + 1:], kl)
        try:
            key = body[off + 1:off + 1 + kl].decode('utf-8')
        except UnicodeDecodeError:
            raise Malformed('name is not utf-8')
        off += 1 + kl
        v, k = dec_value(body[off:])
        out[key] = v
        off += k
    return out, 4 + n


def norm(v):
    """The documented normalisation (C03)."""
    if isinstance(v, bool) or v is None or isinstance(v, (int, str, bytearray, decimal.Decimal)):
        return v
    if isinstance(v, float):
        return struct.unpack('>f', struct.pack('>f', v))[0]
    if isinstance(v, (datetime.datetime, time.struct_time)):
        return datetime.datetime(1970, 1, 1, tzinfo=UTC) + datetime.timedelta(seconds=seconds(v))
    if isinstance(v, list):
        return [norm(x) for x in v]
    if isinstance(v, dict):
        return {k[:128]: norm(x) for k, x in v.items()}
    raise Refused('unsupported type')


def same(a, b):
    """equal in value and Python type (NaN equal to NaN)."""
    if type(a) is not type(b):
        return False
    if isinstance(a, float):
        return (math.isnan(a) and math.isnan(b)) or a == b
    if isinstance(a, list):
        return len(a) == len(b) and all(same(x, y) for x, y in zip(a, b))
    if isinstance(a, dict):
        return set(a) == set(b) and all(same(a[k], b[k]) for k in a)
    if isinstance(a, decimal.Decimal):
        return (a.is_nan() and b.is_nan()) or (a == b and a.as_tuple().exponent == b.as_tuple().exponent)
    return a == b


# ---------------------------------------------------------------- generators
LEAVES = [True, False, 0, 1, -1, 127, 128, -128, -129, 32767, 32768, 65535, 65536, -32769, 2 ** 31 - 1, 2 ** 31, 2 ** 32 - 1,
          2 ** 32, -2 ** 31 - 1, 2 ** 63 - 1, -2 ** 63, 1.5, -0.25, 'x', '', 'é€\U0001F600', None, bytearray(b'\x00\xce'),
          decimal.Decimal('1.5'), decimal.Decimal('-1.5'), decimal.Decimal('3'), decimal.Decimal('1E-7'),
          datetime.datetime(2006, 5, 21, 16, 30, 10), datetime.datetime(2020, 2, 29, 23, 59, 59, 999999, tzinfo=UTC),
          datetime.datetime(1999, 12, 31, 19, 0, tzinfo=datetime.timezone(datetime.timedelta(hours=-5)))]


def gen_value(rng, depth=3):
    r = rng.random()
    if depth <= 0 or r < 0.55:
        v = rng.choice(LEAVES)
        return bytearray(v) if isinstance(v, bytearray) else v
    if r < 0.78:
        return [gen_value(rng, depth - 1) for _ in range(rng.randrange(0, 4))]
    keys = ['a', 'b', 'zz', 'é', 'k' * 128, 'j' * 130, 'A', '0']   # no two names collide after truncation (I4)
    rng.shuffle(keys)
    return {k: gen_value(rng, depth - 1) for k in keys[:rng.randrange(0, 4)]}


def gen_table(rng, depth=3):
    keys = ['a', 'b', 'zz', 'é', 'x-match', 'k' * 128, 'A', '0', 'delivery']
    rng.shuffle(keys)
    return {k: gen_value(rng, depth) for k in keys[:rng.randrange(0, 5)]}


def faulty(rng, good):
    """Mutations of a grammar-valid encoding: truncation, inflated / deflated length fields,
    a corrupted octet, an unknown tag."""
    out = [good[:k] for k in range(len(good))][:40]
    for _ in range(12):
        b = bytearray(good)
        if b:
            i = rng.randrange(len(b))
            b[i] = rng.choice([0, 0xff, 0x80, ord('Z'), b[i] ^ 1, (b[i] + 1) % 256])
            out.append(bytes(b))
    if len(good) >= 4:
        n = struct.unpack('>I', good[:4])[0]
        for m in (n + 1, n + 5, 2 ** 31, 2 ** 32 - 1, max(0, n - 1)):
            out.append(struct.pack('>I', m) + good[4:])
    return out
