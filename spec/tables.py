"""spec.tables -- the AMQP 0-9-1 method catalogue with the RabbitMQ extensions,
the Basic content properties, the reply codes and the protocol constants,
transcribed by hand from the specification (amqp0-9-1 + rabbitmq extensions;
the sandbox has no network and tools/codegen.py needs one).  Never imports
pamqp.  Format of a method line:

    <method-id> <method-name> [S-><reply>[,<reply>]] <field>:<type>[=<default>] ...

A field without "=default" defaults to "unset" (None); table fields default to
an empty table.  Python attribute names follow the library's documented
renamings: 'global' -> 'global_', exchange 'type' -> 'exchange_type', property
'type' -> 'message_type'.
"""

CATALOGUE = """
connection 10
  10 start         S->start-ok        version_major:octet=0 version_minor:octet=9 server_properties:table mechanisms:longstr='PLAIN' locales:longstr='en_US'
  11 start-ok                         client_properties:table mechanism:shortstr='PLAIN' response:longstr='' locale:shortstr='en_US'
  20 secure        S->secure-ok       challenge:longstr
  21 secure-ok                        response:longstr
  30 tune          S->tune-ok         channel_max:short=0 frame_max:long=0 heartbeat:short=0
  31 tune-ok                          channel_max:short=0 frame_max:long=0 heartbeat:short=0
  40 open          S->open-ok         virtual_host:shortstr='/' capabilities:shortstr='' insist:bit=False
  41 open-ok                          known_hosts:shortstr=''
  50 close         S->close-ok        reply_code:short reply_text:shortstr='' class_id:short method_id:short
  51 close-ok
  60 blocked                          reason:shortstr=''
  61 unblocked
  70 update-secret S->update-secret-ok new_secret:longstr reason:shortstr
  71 update-secret-ok
channel 20
  10 open          S->open-ok         out_of_band:shortstr='0'
  11 open-ok                          channel_id:longstr='0'
  20 flow          S->flow-ok         active:bit
  21 flow-ok                          active:bit
  40 close         S->close-ok        reply_code:short reply_text:shortstr='' class_id:short method_id:short
  41 close-ok
exchange 40
  10 declare       S->declare-ok      ticket:short=0 exchange:shortstr='' exchange_type:shortstr='direct' passive:bit=False durable:bit=False auto_delete:bit=False internal:bit=False nowait:bit=False arguments:table
  11 declare-ok
  20 delete        S->delete-ok       ticket:short=0 exchange:shortstr='' if_unused:bit=False nowait:bit=False
  21 delete-ok
  30 bind          S->bind-ok         ticket:short=0 destination:shortstr='' source:shortstr='' routing_key:shortstr='' nowait:bit=False arguments:table
  31 bind-ok
  40 unbind        S->unbind-ok       ticket:short=0 destination:shortstr='' source:shortstr='' routing_key:shortstr='' nowait:bit=False arguments:table
  51 unbind-ok
queue 50
  10 declare       S->declare-ok      ticket:short=0 queue:shortstr='' passive:bit=False durable:bit=False exclusive:bit=False auto_delete:bit=False nowait:bit=False arguments:table
  11 declare-ok                       queue:shortstr message_count:long consumer_count:long
  20 bind          S->bind-ok         ticket:short=0 queue:shortstr='' exchange:shortstr='' routing_key:shortstr='' nowait:bit=False arguments:table
  21 bind-ok
  30 purge         S->purge-ok        ticket:short=0 queue:shortstr='' nowait:bit=False
  31 purge-ok                         message_count:long
  40 delete        S->delete-ok       ticket:short=0 queue:shortstr='' if_unused:bit=False if_empty:bit=False nowait:bit=False
  41 delete-ok                        message_count:long
  50 unbind        S->unbind-ok       ticket:short=0 queue:shortstr='' exchange:shortstr='' routing_key:shortstr='' arguments:table
  51 unbind-ok
basic 60
  10 qos           S->qos-ok          prefetch_size:long=0 prefetch_count:short=0 global_:bit=False
  11 qos-ok
  20 consume       S->consume-ok      ticket:short=0 queue:shortstr='' consumer_tag:shortstr='' no_local:bit=False no_ack:bit=False exclusive:bit=False nowait:bit=False arguments:table
  21 consume-ok                       consumer_tag:shortstr
  30 cancel        S->cancel-ok       consumer_tag:shortstr nowait:bit=False
  31 cancel-ok                        consumer_tag:shortstr
  40 publish                          ticket:short=0 exchange:shortstr='' routing_key:shortstr='' mandatory:bit=False immediate:bit=False
  50 return                           reply_code:short reply_text:shortstr='' exchange:shortstr='' routing_key:shortstr
  60 deliver                          consumer_tag:shortstr delivery_tag:longlong redelivered:bit=False exchange:shortstr='' routing_key:shortstr
  70 get           S->get-ok,get-empty ticket:short=0 queue:shortstr='' no_ack:bit=False
  71 get-ok                           delivery_tag:longlong redelivered:bit=False exchange:shortstr='' routing_key:shortstr message_count:long
  72 get-empty                        cluster_id:shortstr=''
  80 ack                              delivery_tag:longlong=0 multiple:bit=False
  90 reject                           delivery_tag:longlong requeue:bit=True
 100 recover-async                    requeue:bit=False
 110 recover       S->recover-ok      requeue:bit=False
 111 recover-ok
 120 nack                             delivery_tag:longlong=0 multiple:bit=False requeue:bit=True
confirm 85
  10 select        S->select-ok       nowait:bit=False
  11 select-ok
tx 90
  10 select        S->select-ok
  11 select-ok
  20 commit        S->commit-ok
  21 commit-ok
  30 rollback      S->rollback-ok
  31 rollback-ok
"""


def pascal(name):
    return ''.join(p.capitalize() for p in name.split('-'))


class Field:
    def __init__(self, name, wire, default):
        self.name = name
        self.wire = wire
        self.default = default

    def __repr__(self):
        return '%s:%s=%r' % (self.name, self.wire, self.default)


class Method:
    def __init__(self, cls, class_id, name, method_id, responses, fields):
        self.cls = cls                    # 'connection'
        self.class_id = class_id
        self.mname = name                 # 'start-ok'
        self.method_id = method_id
        self.index = class_id << 16 | method_id
        self.pyclass = pascal(cls)        # 'Connection'
        self.pymethod = pascal(name)      # 'StartOk'
        self.name = '%s.%s' % (self.pyclass, self.pymethod)
        self.responses = ['%s.%s' % (self.pyclass, pascal(r)) for r in responses]
        self.synchronous = bool(responses)
        self.fields = fields

    def __repr__(self):
        return '<%s %#010x>' % (self.name, self.index)


def _parse():
    methods = []
    cls = cid = None
    for line in CATALOGUE.splitlines():
        if not line.strip():
            continue
        if not line.startswith(' '):
            cls, cid = line.split()
            cid = int(cid)
            continue
        toks = line.split()
        mid, mname = int(toks[0]), toks[1]
        responses = []
        fields = []
        for t in toks[2:]:
            if t.startswith('S->'):
                responses = t[3:].split(',')
                continue
            fname, rest = t.split(':', 1)
            if '=' in rest:
                wire, dflt = rest.split('=', 1)
                default = eval(dflt, {})   # literal from the table above
            else:
                wire = rest
                default = {} if wire == 'table' else None
            fields.append(Field(fname, wire, default))
        methods.append(Method(cls, cid, mname, mid, responses, fields))
    return methods


METHODS = _parse()
assert len(METHODS) == 64, len(METHODS)
BY_NAME = {m.name: m for m in METHODS}
BY_INDEX = {m.index: m for m in METHODS}

# Basic content properties (class 60): name, flag bit, wire type; all default
# unset except the deprecated cluster id (empty string).
PROPERTIES = [
    ('content_type', 15, 'shortstr'), ('content_encoding', 14, 'shortstr'), ('headers', 13, 'table'),
    ('delivery_mode', 12, 'octet'), ('priority', 11, 'octet'), ('correlation_id', 10, 'shortstr'),
    ('reply_to', 9, 'shortstr'), ('expiration', 8, 'shortstr'), ('message_id', 7, 'shortstr'),
    ('timestamp', 6, 'timestamp'), ('message_type', 5, 'shortstr'), ('user_id', 4, 'shortstr'),
    ('app_id', 3, 'shortstr'), ('cluster_id', 2, 'shortstr'),
]
PROPERTY_DEFAULTS = {n: ('' if n == 'cluster_id' else None) for n, _, _ in PROPERTIES}

# Reply codes: soft = closes the channel only, hard = closes the connection.
REPLY_CODES = [
    (311, 'CONTENT-TOO-LARGE', 'soft'), (312, 'NO-ROUTE', 'soft'), (313, 'NO-CONSUMERS', 'soft'),
    (403, 'ACCESS-REFUSED', 'soft'), (404, 'NOT-FOUND', 'soft'), (405, 'RESOURCE-LOCKED', 'soft'),
    (406, 'PRECONDITION-FAILED', 'soft'),
    (320, 'CONNECTION-FORCED', 'hard'), (402, 'INVALID-PATH', 'hard'), (501, 'FRAME-ERROR', 'hard'),
    (502, 'SYNTAX-ERROR', 'hard'), (503, 'COMMAND-INVALID', 'hard'), (504, 'CHANNEL-ERROR', 'hard'),
    (505, 'UNEXPECTED-FRAME', 'hard'), (506, 'RESOURCE-ERROR', 'hard'), (530, 'NOT-ALLOWED', 'hard'),
    (540, 'NOT-IMPLEMENTED', 'hard'), (541, 'INTERNAL-ERROR', 'hard'),
]
assert len(REPLY_CODES) == 18

CONSTANTS = {
    'FRAME_METHOD': 1, 'FRAME_HEADER': 2, 'FRAME_BODY': 3, 'FRAME_HEARTBEAT': 8,
    'FRAME_END': 206, 'FRAME_END_CHAR': b'\xce', 'FRAME_MIN_SIZE': 4096, 'FRAME_HEADER_SIZE': 7,
    'VERSION': (0, 9, 1),
}
AMQP_PREFIX = b'AMQP'

# ---- validation constraints of the protocol definition (C13)
EXCHANGE_NAME_FIELDS = {
    'Exchange.Declare': ['exchange'], 'Exchange.Delete': ['exchange'],
    'Exchange.Bind': ['destination', 'source'], 'Exchange.Unbind': ['destination', 'source'],
    'Queue.Bind': ['exchange'], 'Queue.Unbind': ['exchange'],
    'Basic.Publish': ['exchange'], 'Basic.Return': ['exchange'], 'Basic.Deliver': ['exchange'],
    'Basic.GetOk': ['exchange'],
}
QUEUE_NAME_FIELDS = {
    'Queue.Declare': ['queue'], 'Queue.DeclareOk': ['queue'], 'Queue.Bind': ['queue'], 'Queue.Purge': ['queue'],
    'Queue.Delete': ['queue'], 'Queue.Unbind': ['queue'], 'Basic.Consume': ['queue'], 'Basic.Get': ['queue'],
}
NAME_CHARSET = set('abcdefghijklmnopqrstuvwxyzABCDEFGHIJKLMNOPQRSTUVWXYZ0123456789-_.:@#,/ ')
EXCHANGE_NAME_MAX = 127
QUEUE_NAME_MAX = 256
VHOST_MAX = 127
FIXED_FIELDS = {   # deprecated fields that must keep their fixed value
    'ticket': 0, 'capabilities': '', 'known_hosts': '', 'cluster_id': '', 'insist': False,
    'out_of_band': '0', 'channel_id': '0',
}


def constraints(method):
    """[(field, kind, param)] for one method, from the rules above."""
    out = []
    for f in method.fields:
        if f.name in FIXED_FIELDS:
            out.append((f.name, 'fixed', FIXED_FIELDS[f.name]))
        if f.name == 'virtual_host':
            out.append((f.name, 'maxlen', VHOST_MAX))
    for fname in EXCHANGE_NAME_FIELDS.get(method.name, []):
        out.append((fname, 'maxlen', EXCHANGE_NAME_MAX))
        out.append((fname, 'charset', 'exchange-name'))
    for fname in QUEUE_NAME_FIELDS.get(method.name, []):
        out.append((fname, 'maxlen', QUEUE_NAME_MAX))
        out.append((fname, 'charset', 'queue-name'))
    return out


VALIDATING = [m.name for m in METHODS if constraints(m)]
