#!/bin/sh
# Everything is interpreted Python; just verify the tools are present.
set -e
python3-vt -c "import z3; print('z3 api', z3.get_version_string())"
/venv/bin/python -c "import sys; print('repo python', sys.version.split()[0])"
command -v z3 >/dev/null && z3 --version
command -v cvc5 >/dev/null && cvc5 --version | head -1
mkdir -p evidence replays
